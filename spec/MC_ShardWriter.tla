-------------------------- MODULE MC_ShardWriter --------------------------
EXTENDS ShardWriter
\* bounded parameter space: cfg is a variable chosen at Init
Grids == {<<3,3,1>>, <<2,2,2>>, <<1,1,5>>, <<3,2,1>>, <<1,1,1>>, <<2,3,1>>}
Triples == {t \in (0..2) \X (0..2) \X (0..2) : t[1] + t[2] + t[3] <= 4}
MCCfgSpace == {[grid |-> g, pb |-> t[1], mb |-> t[2], sb |-> t[3]] : g \in Grids, t \in Triples}
QuickGrids == {<<3,3,1>>, <<2,2,2>>, <<1,1,5>>}
QuickTriples == {<<0,0,0>>, <<0,2,2>>, <<0,1,1>>, <<1,1,1>>, <<2,1,0>>, <<0,2,0>>, <<1,2,1>>}
MCCfgSpaceQuick == {[grid |-> g, pb |-> t[1], mb |-> t[2], sb |-> t[3]] : g \in QuickGrids, t \in QuickTriples}
=============================================================================
