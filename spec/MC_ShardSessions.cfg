SPECIFICATION SSpec
CONSTANTS
  SlotPlacement = "bySlot"
  EmptySlotRead = "skip"
  CfgSpace <- SessCfgSpace
INVARIANT SessionVisibility
INVARIANT SessionsWellFormed
