--------------------------- MODULE Trace_ValueMap ---------------------------
(* C->S for C11.  Two kinds of case, both recorded from the REAL             *)
(* get_chunk_dtype_transformer (harness/valuemap_driver.py):                 *)
(*                                                                           *)
(* k = "v" : one element of one call: input type, output type, the exact     *)
(*           input value v = <<s, i, f>> and what came out:                  *)
(*           rk = "fin" with the exact output value r, or "inf" (sign in     *)
(*           r[1]) / "nan".  Clause oracle:Nearest  (r = Convert(v)).        *)
(* k = "run": one call on an array: mode ("preserve" / "inplace"), layout    *)
(*           ("contig", "strided", "fortran", "readonly"), exception class   *)
(*           (or ""), lossless dumps (hex of the element bytes in logical    *)
(*           order) of the caller's buffer before / after the call, of the   *)
(*           result (res) and of the result of the reference call on the     *)
(*           same values (ref: first call that returned, the preserve /      *)
(*           contiguous one unless it raised), result dtype and shape.       *)
(*           Clauses oracle:Raised, oracle:InputModified, oracle:OutputType, *)
(*           oracle:ModeDependent.                                           *)
(* Every element of every reference call is a "v" case, and every other call *)
(* is tied to its reference by ModeDependent, so every returned element is   *)
(* judged against Convert.                                                   *)
EXTENDS ValueMap, Json, IOUtils, TLC

Cases == ndJsonDeserialize(IOEnv.TRACE_FILE)

VARIABLE tid

ValueClause(c) ==
  LET inT == TypeOf(c.in)
      outT == TypeOf(c.out)
  IN
  IF ~IsValue(c.v) \/ ~InType(c.v, inT) THEN "machinery:InputNotInType"
  ELSE IF c.rk = "fin"
       THEN (IF IsValue(c.r) /\ Canon(c.r) = Convert(c.v, inT, outT) THEN "ok" ELSE "oracle:Nearest")
  ELSE IF c.rk = "inf"
       THEN (IF outT.kind = "float" /\ FloatOverflow(c.v, outT) /\ c.r[1] = c.v[1]
             THEN "ok" ELSE "oracle:Nearest")
  ELSE "oracle:Nearest"

RunClause(c) ==
  IF c.exc # "" THEN "oracle:Raised"
  ELSE IF ~InputKept(c.mode, c.before, c.after) THEN "oracle:InputModified"
  ELSE IF c.rdtype # c.out \/ c.rshape # c.shape THEN "oracle:OutputType"
  ELSE IF ~Independent(c.res, c.ref) THEN "oracle:ModeDependent"
  ELSE "ok"

Clause(c) == IF c.k = "v" THEN ValueClause(c) ELSE RunClause(c)

\* the design-layer variables of ValueMap are not used by the judge.
\* The verdict is computed on the SUCCESSOR state (done = TRUE): TLC generates
\* initial states in one thread but explores successors with all workers.
VARIABLE done
TraceInit == tid \in 1..Len(Cases) /\ done = FALSE /\ cfg = 0 /\ input = 0 /\ output = 0 /\ status = 0
TraceNext == ~done /\ done' = TRUE /\ UNCHANGED <<tid, vars>>
TraceSpec == TraceInit /\ [][TraceNext]_<<tid, done, vars>>

Emit == done =>
        LET cl == Clause(Cases[tid]) IN
        PrintT(<<"VERDICT", tid, IF cl = "ok" THEN "ok" ELSE "bad", cl, 0>>)
=============================================================================
