-------------------------- MODULE Trace_FileStore --------------------------
(* Trace specification for the plain file accessor (C12), and the stateless *)
(* path-confinement cases for both file accessors.                          *)
(*                                                                          *)
(* kind "hist": [cfg, events]; every event is one public store call of the  *)
(*   real accessor with its result, followed by what was observed right     *)
(*   after it: the directory tree (path, payload id, gz flag, gz validity), *)
(*   fetch_file / file_exists of every name and fetch_chunk of every chunk  *)
(*   through accessors opened with ALL FOUR configurations.                 *)
(* kind "confine": [segs, abs, op, res, touched, leaked]                    *)
EXTENDS FileStore, Json, IOUtils

Cases == ndJsonDeserialize(IOEnv.TRACE_FILE)

VARIABLES tid, l, status, clause
tvars == <<tid, l, status, clause>>
allvars == <<vars, tvars>>

Ev == Cases[tid].events[l]

TreeAsDisk(tree) ==
  [p \in {tree[i].p : i \in 1..Len(tree)} |->
     LET i == CHOOSE j \in 1..Len(tree) : tree[j].p = p
     IN [data |-> tree[i].data, gz |-> tree[i].gz]]

TreeHas(tree, p, v, gz) ==
  \E i \in 1..Len(tree) : tree[i].p = p /\ tree[i].data = v /\ tree[i].gz = gz /\ tree[i].gzok

\* oracle expectations after the event, given the ghost state BEFORE it
EventClause(e) ==
  LET isFile == e.op = "store_file"
      existed == IF isFile THEN latest[e.name] # Absent ELSE latestC[e.c] # Absent
      mustRefuse == ~e.ow /\ existed
      newLatest == IF mustRefuse \/ e.res # "ok" THEN latest
                   ELSE IF isFile THEN [latest EXCEPT ![e.name] = e.v] ELSE latest
      newLatestC == IF mustRefuse \/ e.res # "ok" THEN latestC
                    ELSE IF isFile THEN latestC ELSE [latestC EXCEPT ![e.c] = e.v]
      readsOk ==
        \A i \in 1..Len(e.files) :
           LET f == e.files[i] IN
           IF newLatest[f.n] = Absent THEN f.st = "err"
           ELSE f.st = "ok" /\ f.v = newLatest[f.n]
      existsOk ==
        \A i \in 1..Len(e.files) : e.files[i].ex = (newLatest[e.files[i].n] # Absent)
      chunkOk(own) ==
        \A i \in 1..Len(e.chunks) : \A j \in 1..Len(e.chunks[i].r) :
           LET r == e.chunks[i].r[j]
               isOwn == r.flat = cfg.flat /\ r.gzip = cfg.gzip IN
           (isOwn = own) =>
             (IF newLatestC[e.chunks[i].c] = Absent THEN r.st = "err"
              ELSE r.st = "ok" /\ r.v = newLatestC[e.chunks[i].c])
      gzValid == \A i \in 1..Len(e.tree) : e.tree[i].gz => e.tree[i].gzok
      pathOk ==
        (~isFile /\ ~mustRefuse /\ e.res = "ok") =>
           TreeHas(e.tree, WithGz(ChunkPath(Key, e.c, cfg.flat), GzApplies(cfg.gzip, e.mime)),
                   e.v, GzApplies(cfg.gzip, e.mime))
  IN IF mustRefuse /\ e.res = "ok" THEN "oracle:NoOverwriteRefused"
     ELSE IF mustRefuse /\ TreeAsDisk(e.tree) # disk THEN "oracle:NoOverwriteChangedTree"
     ELSE IF ~mustRefuse /\ e.res # "ok" THEN "oracle:StoreFailed"
     ELSE IF ~gzValid THEN "oracle:GzValid"
     ELSE IF ~pathOk THEN "oracle:ChunkPath"
     ELSE IF ~readsOk THEN "oracle:LastWriteWins"
     ELSE IF ~existsOk THEN "oracle:ExistsAgrees"
     ELSE IF ~chunkOk(TRUE) THEN "oracle:LastWriteWinsChunk"
     ELSE IF ~chunkOk(FALSE) THEN "oracle:CrossConfigRead"
     ELSE "ok"

\* design prediction of the tree (DRIFT only)
DesignDiskAfter(e) ==
  IF e.op = "store_file"
  THEN LET p == WithGz(e.name, GzApplies(cfg.gzip, e.mime)) IN
       IF ~e.ow /\ Has(disk, p) THEN disk ELSE Put(disk, p, e.v, GzApplies(cfg.gzip, e.mime))
  ELSE LET p == WithGz(ChunkPath(Key, e.c, cfg.flat), GzApplies(cfg.gzip, e.mime)) IN
       IF ~e.ow /\ Has(disk, p) THEN disk ELSE Put(disk, p, e.v, GzApplies(cfg.gzip, e.mime))

\* --- confinement -------------------------------------------------------------
\* a relative name escapes when, walking its segments, the depth below the
\* base directory becomes negative; absolute names escape by definition
RECURSIVE MinDepth(_, _, _)
MinDepth(segs, depth, mn) ==
  IF segs = << >> THEN mn
  ELSE LET d == IF segs[1] = ".." THEN depth - 1
                ELSE IF segs[1] = "." THEN depth ELSE depth + 1
       IN MinDepth(Tail(segs), d, IF d < mn THEN d ELSE mn)
Escapes(c) == c.abs \/ MinDepth(c.segs, 10, 10) < 10
ConfineClause(c) ==
  IF ~Escapes(c) THEN "ok"
  ELSE IF c.res = "ok" THEN "oracle:ConfinementRefused"
  ELSE IF c.touched THEN "oracle:ConfinementTouchedFs"
  ELSE "ok"

IsHist == Cases[tid].kind = "hist"

TInit == /\ tid \in 1..Len(Cases)
         /\ l = 1
         /\ status = "run"
         /\ clause = "ok"
         /\ cfg = IF Cases[tid].kind = "hist" THEN Cases[tid].cfg ELSE [flat |-> FALSE, gzip |-> FALSE]
         /\ disk = << >>
         /\ latest = [n \in Names |-> Absent]
         /\ latestC = [c \in Chunks |-> Absent]
         /\ nops = 0
         /\ noOwBroken = FALSE

Step ==
  /\ status = "run" /\ IsHist /\ l <= Len(Cases[tid].events)
  /\ LET e == Ev
         cl == EventClause(e)
         isFile == e.op = "store_file"
         existed == IF isFile THEN latest[e.name] # Absent ELSE latestC[e.c] # Absent
         applied == ~(~e.ow /\ existed) /\ e.res = "ok"
     IN /\ IF cl = "ok"
           THEN /\ l' = l + 1 /\ UNCHANGED <<status, clause>>
                /\ (DesignDiskAfter(e) # TreeAsDisk(e.tree) =>
                      PrintT(<<"DRIFT", tid, "design:Tree", l>>))
           ELSE /\ status' = "bad" /\ clause' = cl /\ UNCHANGED l
        /\ latest' = IF applied /\ isFile THEN [latest EXCEPT ![e.name] = e.v] ELSE latest
        /\ latestC' = IF applied /\ ~isFile THEN [latestC EXCEPT ![e.c] = e.v] ELSE latestC
        /\ disk' = TreeAsDisk(e.tree)          \* adopt what was observed
  /\ nops' = nops + 1
  /\ UNCHANGED <<tid, cfg, noOwBroken>>

Finish ==
  /\ status = "run"
  /\ \/ (IsHist /\ l > Len(Cases[tid].events) /\ status' = "ok" /\ clause' = "ok")
     \/ (~IsHist /\ LET cl == ConfineClause(Cases[tid]) IN
                    /\ status' = (IF cl = "ok" THEN "ok" ELSE "bad")
                    /\ clause' = cl)
  /\ UNCHANGED <<vars, tid, l>>

TNext == Step \/ Finish
TSpec == TInit /\ [][TNext]_allvars

Emit == status # "run" => PrintT(<<"VERDICT", tid, status, clause, l>>)
=============================================================================
