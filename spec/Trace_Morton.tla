---------------------------- MODULE Trace_Morton ----------------------------
(* Judge what the real code returned for chunk identifiers and routing.     *)
(* kind "cmc":   [size, cs, items: Seq([c: <<xmin,ymin,zmin>>, st, bits])]  *)
(*    st = "id" (bits = returned identifier) | "rejected" (ShardedIOError)  *)
(*       | "exc" (any other exception)                                      *)
(* kind "route": [pb, mb, sb, items: Seq([id, shard, mini, name])]          *)
EXTENDS Morton, Json, IOUtils, TLC

Cases == ndJsonDeserialize(IOEnv.TRACE_FILE)
VARIABLES tid, done
vars == <<tid, done>>

CmcItem(c, it) ==
  LET chunk == <<c.cs, c.cs, c.cs>>
      ok == OnLattice(c.size, chunk, it.c)
  IN IF ok
     THEN (IF it.st # "id" THEN "oracle:RejectsValidPosition"
           ELSE IF it.bits # Code(GridOf(c.size, chunk), PosOf(chunk, it.c))
                THEN "oracle:CodeValue" ELSE "ok")
     ELSE (IF it.st = "id" THEN "oracle:AcceptsOutsidePosition" ELSE "ok")

RouteItem(c, it) ==
  IF it.mini # MiniOf(it.id, c.pb, c.mb) THEN "oracle:MinishardNumber"
  ELSE IF it.shard # ShardOf(it.id, c.pb, c.mb, c.sb) THEN "oracle:ShardNumber"
  ELSE IF it.name # ShardName(it.id, c.pb, c.mb, c.sb) THEN "oracle:ShardFileName"
  ELSE "ok"

Item(c, k) == IF c.kind = "cmc" THEN CmcItem(c, c.items[k]) ELSE RouteItem(c, c.items[k])

FirstBadIdx(c) ==
  LET B == {k \in 1..Len(c.items) : Item(c, k) # "ok"}
  IN IF B = {} THEN 0 ELSE CHOOSE k \in B : \A j \in B : k <= j

Init == tid \in 1..Len(Cases) /\ done = FALSE
Next == ~done /\ done' = TRUE /\ UNCHANGED tid
Spec == Init /\ [][Next]_vars

Emit == done =>
        LET c == Cases[tid]
            k == FirstBadIdx(c)
        IN PrintT(<<"VERDICT", tid, IF k = 0 THEN "ok" ELSE "bad",
                    IF k = 0 THEN "ok" ELSE Item(c, k), k>>)
=============================================================================
