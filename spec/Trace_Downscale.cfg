SPECIFICATION TraceSpec
CONSTANTS
  WorkType = "exact"
  SigBits = 4
  TypeBits = 5
INVARIANT Emit
