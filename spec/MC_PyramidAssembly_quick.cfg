SPECIFICATION Spec
CONSTANTS
  AssignRule = "strict"
  CfgSpace <- MCSpaceQuick
INVARIANT MachineAgrees
INVARIANT CorrectIsGlobal
INVARIANT NoUnwritten
INVARIANT IntendedCorrect
INVARIANT ClosedForm
INVARIANT ValueLevelInv
INVARIANT NoSilentWrong
