SPECIFICATION Spec
CONSTANTS
  CfgSpace <- MCSpaceQuick
INVARIANT MachineAgrees
INVARIANT CorrectIsGlobal
INVARIANT NoUnwritten
INVARIANT IntendedCorrect
INVARIANT ClosedForm
INVARIANT ValueLevelInv
