----------------------- MODULE MC_PyramidAssembly2D -----------------------
(* Factorisation lemma behind the per-axis model: a DIRECT 2-D rendering of *)
(* the octant assembly (four quadrants = products of per-axis halves, NumPy *)
(* broadcasting judged on the 2-D shapes, a source chunk is missing when    *)
(* either index is outside the old grid) has the outcome                    *)
(* Combine(<<Outcome(x axis), Outcome(y axis)>>), on every pair of small    *)
(* per-axis instances.                                                      *)
EXTENDS PyramidAssembly
VARIABLE cy
Unwritten2 == <<Unwritten, Unwritten>>
Fail2 == [ok |-> FALSE, dest |-> << >>]

Copy2(cx, cyy, dst, lx, hx, ly, hy, jx, jy) ==
  IF jx >= NOld(cx) \/ jy >= NOld(cyy) THEN Fail2
  ELSE LET sx == DownChunk(cx, jx)
           sy == DownChunk(cyy, jy)
           okx == Len(sx) = hx - lx \/ (Len(sx) = 1 /\ AssignRule = "numpy")
           oky == Len(sy) = hy - ly \/ (Len(sy) = 1 /\ AssignRule = "numpy")
       IN IF ~(okx /\ oky) THEN Fail2
          ELSE [ok |-> TRUE,
                dest |-> [p \in DOMAIN dst |->
                  IF p[1] > lx /\ p[1] <= hx /\ p[2] > ly /\ p[2] <= hy
                  THEN <<IF Len(sx) = 1 THEN sx[1] ELSE sx[p[1] - lx],
                         IF Len(sy) = 1 THEN sy[1] ELSE sy[p[2] - ly]>>
                  ELSE dst[p]]]

\* the quadrants in the order of the code; a failed step stops the run
Chunk2(cx, cyy, ix, iy) ==
  IF H(cx) = 0 \/ H(cyy) = 0 THEN Fail2
  ELSE
  LET lenx == ChunkLen(cx, ix)
      leny == ChunkLen(cyy, iy)
      hx == H(cx)
      hy == H(cyy)
      d0 == [p \in (1..lenx) \X (1..leny) |-> Unwritten2]
      jx == K(cx) * ix
      jy == K(cyy) * iy
      s1 == Copy2(cx, cyy, d0, 0, Min2(hx, lenx), 0, Min2(hy, leny), jx, jy)
      s2 == IF s1.ok /\ leny > hy
            THEN Copy2(cx, cyy, s1.dest, 0, Min2(hx, lenx), hy, leny, jx, jy + 1) ELSE s1
      s3 == IF s2.ok /\ lenx > hx
            THEN Copy2(cx, cyy, s2.dest, hx, lenx, 0, Min2(hy, leny), jx + 1, jy) ELSE s2
      s4 == IF s3.ok /\ lenx > hx /\ leny > hy
            THEN Copy2(cx, cyy, s3.dest, hx, lenx, hy, leny, jx + 1, jy + 1) ELSE s3
  IN s4

Outcome2(cx, cyy) ==
  LET I == (0..(NNew(cx) - 1)) \X (0..(NNew(cyy) - 1)) IN
  IF \E q \in I : ~Chunk2(cx, cyy, q[1], q[2]).ok THEN "Error"
  ELSE IF \A q \in I :
            LET d == Chunk2(cx, cyy, q[1], q[2]).dest IN
            \A p \in DOMAIN d :
               d[p] = <<GlobalDown(cx)[ChunkLo(cx, q[1]) + p[1]],
                        GlobalDown(cyy)[ChunkLo(cyy, q[2]) + p[2]]>>
       THEN "Correct" ELSE "SilentWrong"

Small == {[size |-> s, o |-> o, n |-> n, f |-> f] :
            s \in 1..7, o \in {1, 2, 4}, n \in {1, 2, 4, 8}, f \in {1, 2}}
SmallQuick == {[size |-> s, o |-> o, n |-> n, f |-> f] :
            s \in {1, 2, 3, 5, 6}, o \in {1, 2, 4}, n \in {1, 2, 4}, f \in {1, 2}}

Init2 == /\ cfg \in CfgSpace /\ cy \in CfgSpace
         /\ i = 0 /\ part = "2d" /\ dest = << >> /\ level = << >>
Next2 == UNCHANGED <<vars, cy>>
Spec2 == Init2 /\ [][Next2]_<<vars, cy>>
Factorises == Outcome2(cfg, cy) = Combine(<<Outcome(cfg), Outcome(cy)>>)
=============================================================================
