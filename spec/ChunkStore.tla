----------------------------- MODULE ChunkStore -----------------------------
(* The dataset I/O layer (precomputed_io.PrecomputedIO) as a state machine. *)
(* ORACLE: OnGrid (from the Neuroglancer volume format: a chunk position is *)
(* valid for a scale iff, for one of the scale's chunk sizes, on every axis *)
(* 0 <= min < size, min is a multiple of the chunk size and                 *)
(* max = Min(min + chunk, size)); read-your-writes per (scale, coords);     *)
(* independence of other chunks and scales; a rejected write has no effect. *)
(* DESIGN: validate_chunk_coords as the code evaluates it; deviation switch *)
(* ValidatorBounds = "unchecked" is the code before the repair (it tests    *)
(* divisibility and the max rule but not 0 <= min < size).                  *)
EXTENDS Integers, Sequences, FiniteSets, TLC

CONSTANTS ValidatorBounds, MaxOps, Infos

Min2(a, b) == IF a < b THEN a ELSE b

\* c = <<xmin, xmax, ymin, ymax, zmin, zmax>>
AxisOk(mn, mx, size, cs) ==
  /\ mn >= 0 /\ mn < size
  /\ mn % cs = 0
  /\ mx = Min2(mn + cs, size)
OnGridFor(size, cs, c) ==
  \A d \in 1..3 : AxisOk(c[2 * d - 1], c[2 * d], size[d], cs[d])
OnGrid(size, chunkSizes, c) ==
  \E k \in 1..Len(chunkSizes) : OnGridFor(size, chunkSizes[k], c)

\* design: PrecomputedIO.validate_chunk_coords
DesignAxis(mn, mx, size, cs) ==
  /\ (ValidatorBounds = "checked" => mn >= 0 /\ mn < size)
  /\ mn % cs = 0
  /\ mx = Min2(mn + cs, size)
DesignValidate(size, chunkSizes, c) ==
  \E k \in 1..Len(chunkSizes) :
     \A d \in 1..3 : DesignAxis(c[2 * d - 1], c[2 * d], size[d], chunkSizes[k][d])

\* ---- state machine ----------------------------------------------------------
VARIABLES info,    \* Seq of [size, chunks] (one per scale), fixed at Init
          store,   \* <<scale, coords>> -> array id
          nops, lastRes
vars == <<info, store, nops, lastRes>>

Arrays == {1, 2}
\* candidate (min, max) pairs on one axis: the valid ones and typical wrong ones
AxisCands(size, cs) ==
  {<<m, Min2(m + cs, size)>> : m \in {0 - cs, 0, cs, 2 * cs, size}} \cup
  {<<1, Min2(1 + cs, size)>>, <<0, cs + 1>>, <<0, size>>, <<cs, cs>>}
Cands(sc) ==
  LET cs == sc.chunks[1] IN
  {<<a[1], a[2], b[1], b[2], c[1], c[2]>> :
     a \in AxisCands(sc.size[1], cs[1]), b \in AxisCands(sc.size[2], cs[2]),
     c \in {<<0, Min2(cs[3], sc.size[3])>>, <<cs[3], Min2(2 * cs[3], sc.size[3])>>, <<0 - cs[3], 0>>}}

Init == /\ info \in Infos
        /\ store = << >>
        /\ nops = 0
        /\ lastRes = "none"

Put(st, k, v) == [q \in DOMAIN st \cup {k} |-> IF q = k THEN v ELSE st[q]]

Write(s, c, a) ==
  /\ nops < MaxOps
  /\ nops' = nops + 1
  /\ IF DesignValidate(info[s].size, info[s].chunks, c)
     THEN store' = Put(store, <<s, c>>, a) /\ lastRes' = "ok"
     ELSE UNCHANGED store /\ lastRes' = "rejected"
  /\ UNCHANGED info

Next == \E s \in 1..Len(info) : \E c \in Cands(info[s]), a \in Arrays : Write(s, c, a)
Spec == Init /\ [][Next]_vars

\* ---- Design => Oracle ----------------------------------------------------------
\* only on-grid positions are ever stored
OnlyOnGridStored ==
  \A k \in DOMAIN store : OnGrid(info[k[1]].size, info[k[1]].chunks, k[2])
\* the validator IS the oracle predicate on every candidate tuple
ValidatorIsOnGrid ==
  \A s \in 1..Len(info) : \A c \in Cands(info[s]) :
     DesignValidate(info[s].size, info[s].chunks, c) = OnGrid(info[s].size, info[s].chunks, c)
\* a write changes at most its own key (independence), never another scale's
Independence ==
  [][/\ \A k \in DOMAIN store : k \in DOMAIN store'
     /\ Cardinality({q \in DOMAIN store' : q \notin DOMAIN store \/ store'[q] # store[q]}) <= 1]_vars
=============================================================================
