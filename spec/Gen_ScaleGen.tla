---------------------------- MODULE Gen_ScaleGen ----------------------------
(* S->C export for C08: the axes of the input space on which MC_ScaleGen    *)
(* evaluates the transcription (single source of truth: the harness feeds   *)
(* points of the SAME product to the real generator), extended by the       *)
(* values only the real code is run on (decimal scale, larger targets).     *)
EXTENDS MC_ScaleGen
\* ... and voxel sizes with more than three decimals (sixteenths, exactly representable)
ResValues == R1 \cup {<<1, 2>>, <<3, 2>>, <<1, 10>>, <<33, 10>>, <<400, 1>>, <<21, 1>>,
                      <<1, 16>>, <<61, 16>>, <<3, 8>>}
SizeValues == S1
TargetExps == 1..8
MaxScales == {0, 1, 2, 3}
DecScales == {0, 3, 6}
ASSUME PrintT(<<"BEH", ToJson([res |-> SetToSeq(ResValues), size |-> SetToSeq(SizeValues),
                                T |-> SetToSeq(TargetExps), maxs |-> SetToSeq(MaxScales),
                                s |-> SetToSeq(DecScales)])>>)
GInit == phase = "gen" /\ seed = << >> /\ cls = << >>
GNext == UNCHANGED mvars
GSpec == GInit /\ [][GNext]_mvars
=============================================================================
