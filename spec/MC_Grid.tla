------------------------------ MODULE MC_Grid ------------------------------
(* Bounded instance of the volume tiler: cfg is chosen at Init, so one run  *)
(* covers every (size, chunk size, channels) of the scope.                  *)
EXTENDS Grid
Sizes(n) == (1..n) \X (1..n) \X (1..n)
\* thorough: all sizes 1..5 per axis x chunk sizes 1..4 per axis (non-cubic)
MCCfgSpace == {[size |-> s, chunk |-> k, channels |-> 1] : s \in Sizes(5), k \in Sizes(4)}
                \cup {[size |-> s, chunk |-> k, channels |-> c] :
                         s \in Sizes(3), k \in Sizes(3), c \in 2..3}
\* quick: sizes 1..4 x chunk sizes 1..3, one channel; 3 channels on sizes <= 2
MCCfgSpaceQuick == {[size |-> s, chunk |-> k, channels |-> 1] : s \in Sizes(4), k \in Sizes(3)}
                \cup {[size |-> s, chunk |-> k, channels |-> 3] : s \in Sizes(2), k \in Sizes(2)}
=============================================================================
