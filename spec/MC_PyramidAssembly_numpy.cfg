SPECIFICATION Spec
CONSTANTS
  AssignRule = "numpy"
  CfgSpace <- MCSpace
INVARIANT MachineAgrees
INVARIANT CorrectIsGlobal
INVARIANT NoUnwritten
INVARIANT IntendedCorrect
INVARIANT ClosedForm
INVARIANT ValueLevelInv
