SPECIFICATION Spec
CONSTANTS
  Threshold = "byLength"
  Dense <- DenseQuick
  W = 30
INVARIANT DesignOk
