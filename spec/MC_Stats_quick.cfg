SPECIFICATION Spec
CONSTANTS
  Threshold = "byLength"
  Dense = 12000
  W = 40
INVARIANT DesignOk
