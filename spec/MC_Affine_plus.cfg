SPECIFICATION Spec
CONSTANTS
  HalfShift = "plus"
  CfgSpace <- MCCfgSpaceQuick
INVARIANT ConventionIdentity
INVARIANT ProbesSuffice
