-------------------------------- MODULE CSeg --------------------------------
(* Neuroglancer "compressed_segmentation" chunk encoding.                    *)
(*                                                                           *)
(* ORACLE LAYER (first half) - written from the published format text only: *)
(*   * a file is a sequence of little-endian uint32 words;                   *)
(*   * it starts with one word per channel: the offset (in words, from the   *)
(*     start of the file) at which the data of that channel begins;          *)
(*   * the data of one channel starts with a grid of block headers, 2 words  *)
(*     (8 bytes) per block, in x + gx*(y + gy*z) order, where                *)
(*     gx = ceil(X / bx) ...;  word0 = tableOffset (low 24 bits) |           *)
(*     bits << 24, word1 = encodedValuesOffset; both offsets are in words    *)
(*     RELATIVE TO THE START OF THE CHANNEL DATA;                            *)
(*   * bits is one of 0,1,2,4,8,16,32; the encoded values of a block occupy  *)
(*     ceil(bx*by*bz*bits/32) words; value i (i = x' + bx*(y' + by*z') inside*)
(*     the block, x fastest) sits at bit i*bits, little-endian inside the    *)
(*     32-bit words; with bits = 0 every voxel uses table entry 0;           *)
(*   * the label of a voxel is table[value]; a table entry is 1 word         *)
(*     (uint32) or 2 words (uint64, low word first); the table length is not *)
(*     stored;                                                               *)
(*   * voxels of a block that overhang the chunk are padding: their encoded  *)
(*     value is unconstrained (a reader never looks them up).                *)
(*                                                                           *)
(* Representation (TLC integers are 32 bit): a buffer is a record            *)
(*     B = [n |-> length in BYTES, h |-> Seq(0..65535)]                      *)
(* h being the bytes taken two by two, little-endian (a trailing odd byte is *)
(* zero-extended), so word i (0-based) is <<h[2i+1], h[2i+2]>> = <<lo, hi>>. *)
(* 32-bit quantities that are only ever compared with positions inside the  *)
(* buffer are saturated at Huge = 2^28 (buffers are far smaller).            *)
(* A parameter record is c = [C, X, Y, Z, bx, by, bz, wpl] (channels, chunk  *)
(* size, block size, words per label).  Arrays are flat sequences of halves  *)
(* in C order of the (C, Z, Y, X) array: voxel v = x + X*(y + Y*(z + Z*ch))  *)
(* occupies halves v*2*wpl+1 .. (v+1)*2*wpl, least significant first.        *)
(*                                                                           *)
(* Interpretations (weaker reading chosen when the text leaves a choice):    *)
(*  I1 WellFormed is the LENIENT reading used to judge ENCODER OUTPUT (C02): *)
(*     everything a format-following reader touches lies inside the file.    *)
(*     Table entries are only required for voxels inside the chunk; the      *)
(*     complete value area ceil(bx*by*bz*bits/32) of every block must be     *)
(*     inside the file (the text gives that size); no constraint on the      *)
(*     relative position of headers, tables, values, channels.               *)
(*  I2 Valid is the STRICT reading used as the premise of "valid data is     *)
(*     never rejected" (C10): WellFormed, plus the channels are concatenated *)
(*     in order (every word a channel refers to - headers, complete value    *)
(*     areas, table entries of ALL block positions including padding - lies  *)
(*     between the start of that channel and the start of the next one / the *)
(*     end of the file, and channel 0 starts after the offset words).  Every *)
(*     encoder that "concatenates the encoded channels" (the format's own    *)
(*     description) produces Valid files; a decoder is not blamed for        *)
(*     rejecting interleaved or out-of-order layouts.                        *)
(*  I3 a buffer whose length is not a multiple of 4 is not well formed.      *)
(*                                                                           *)
(* DESIGN LAYER (second half): the parse automaton of the package's own      *)
(* reader (_compressed_segmentation.decode_chunk_into/_decode_channel_into), *)
(* a relational encoder step used by MC_CSeg, and field mutation operators.  *)
EXTENDS Integers, Sequences, SequencesExt, FiniteSets, Functions, TLC

\* deviation switch (design layer only): how the reader delimits one channel
\*   "next_unchecked" = buf[offset:next_offset] without looking at the order
\*                      of the two offsets (the code today)
\*   "to_end"         = buf[offset:]      (conforming: a channel may refer to
\*                      anything after its start)
\*   "next_checked"   = as today, but next_offset < offset + header grid is
\*                      reported as a format error
CONSTANT ChannelSlice

Huge == 268435456                       \* 2^28
MinN(a, b) == IF a <= b THEN a ELSE b
MaxN(a, b) == IF a >= b THEN a ELSE b
CeilDiv(a, b) == (a + b - 1) \div b
Pow2(n) == 2 ^ n
LegalBits == {0, 1, 2, 4, 8, 16, 32}

(***************************************************************************)
(*                              ORACLE LAYER                               *)
(***************************************************************************)
NWords(B) == B.n \div 4                          \* complete words in the file
Half(B, j) == IF j >= 0 /\ j < Len(B.h) THEN B.h[j + 1] ELSE 0   \* 0-based, total
Word(B, i) == <<Half(B, 2 * i), Half(B, 2 * i + 1)>>
\* value of a word, exact below 2^28, saturated above
WVal(w) == IF w[2] >= 4096 THEN Huge ELSE w[1] + 65536 * w[2]

GX(c) == CeilDiv(c.X, c.bx)
GY(c) == CeilDiv(c.Y, c.by)
GZ(c) == CeilDiv(c.Z, c.bz)
NBlocks(c) == GX(c) * GY(c) * GZ(c)
BlockVox(c) == c.bx * c.by * c.bz
NVox(c) == c.X * c.Y * c.Z
HPL(c) == 2 * c.wpl                              \* halves per label
ArrLen(c) == c.C * NVox(c) * HPL(c)
ValWords(c, bits) == CeilDiv(BlockVox(c) * bits, 32)

\* what the headers say, with every offset made absolute (words from the
\* start of the file); total on any buffer
Layout(B, c) ==
  [ch \in 0..(c.C - 1) |->
     LET off == WVal(Word(B, ch)) IN
     [off |-> off,
      blk |-> [b \in 0..(NBlocks(c) - 1) |->
                 LET h0 == Word(B, off + 2 * b)
                     h1 == Word(B, off + 2 * b + 1)
                 IN [tab  |-> off + h0[1] + 65536 * (h0[2] % 256),
                     bits |-> h0[2] \div 256,
                     val  |-> off + WVal(h1)]]]]

\* encoded value i of the block described by e
IndexAt(B, e, i) ==
  IF e.bits = 0 \/ e.bits \notin LegalBits THEN 0
  ELSE IF e.bits = 32 THEN WVal(Word(B, e.val + i))
  ELSE LET p == i * e.bits
       IN (Half(B, 2 * (e.val + (p \div 32)) + ((p % 32) \div 16)) \div Pow2(p % 16))
          % Pow2(e.bits)
\* first word of the table entry used by position i of the block
TableWord(B, c, e, i) == e.tab + c.wpl * IndexAt(B, e, i)

\* voxel r = x + X*(y + Y*z) of a channel: its block and its position there
VX(c, r) == r % c.X
VY(c, r) == (r \div c.X) % c.Y
VZ(c, r) == r \div (c.X * c.Y)
BlkOfVox(c, r) ==
  (VX(c, r) \div c.bx) + GX(c) * ((VY(c, r) \div c.by) + GY(c) * (VZ(c, r) \div c.bz))
PosOfVox(c, r) ==
  (VX(c, r) % c.bx) + c.bx * ((VY(c, r) % c.by) + c.by * (VZ(c, r) % c.bz))

\* ---- WellFormed: named clauses in the order a reader meets them ----------
WFClauseL(B, c, L) ==
  LET nw == NWords(B) IN
  IF (B.n % 4) # 0 THEN "oracle:WellFormed.WholeWords"
  ELSE IF c.C > nw THEN "oracle:WellFormed.ChannelTableInside"
  ELSE IF \E ch \in DOMAIN L : L[ch].off + 2 * NBlocks(c) > nw
       THEN "oracle:WellFormed.BlockHeadersInside"
  ELSE IF \E ch \in DOMAIN L : \E b \in DOMAIN L[ch].blk :
             L[ch].blk[b].bits \notin LegalBits
       THEN "oracle:WellFormed.BitsLegal"
  ELSE IF \E ch \in DOMAIN L : \E b \in DOMAIN L[ch].blk :
             LET e == L[ch].blk[b] IN e.bits > 0 /\ e.val + ValWords(c, e.bits) > nw
       THEN "oracle:WellFormed.ValuesInside"
  ELSE IF \E ch \in DOMAIN L : \E r \in 0..(NVox(c) - 1) :
             TableWord(B, c, L[ch].blk[BlkOfVox(c, r)], PosOfVox(c, r)) + c.wpl > nw
       THEN "oracle:WellFormed.TableEntryInside"
  ELSE "ok"

WFClause(B, c) == WFClauseL(B, c, Layout(B, c))
WellFormedB(B, c) == WFClause(B, c) = "ok"

\* ---- CSegDecode: the array a format-following reader recovers ------------
DecodeL(B, c, L) ==
  LET nv == NVox(c)
      hpl == HPL(c)
      TW == [v \in 0..(c.C * nv - 1) |->
               LET r == v % nv
               IN TableWord(B, c, L[v \div nv].blk[BlkOfVox(c, r)], PosOfVox(c, r))]
  IN [k \in 1..(c.C * nv * hpl) |-> Half(B, 2 * TW[(k - 1) \div hpl] + ((k - 1) % hpl))]
CSegDecodeB(B, c) == DecodeL(B, c, Layout(B, c))

\* ---- Valid: strict reading (interpretation I2) ---------------------------
ChEnd(B, c, L, ch) == IF ch = c.C - 1 THEN NWords(B) ELSE L[ch + 1].off
ChannelsSeparateL(B, c, L) ==
  /\ L[0].off >= c.C
  /\ \A ch \in DOMAIN L :
       LET end == ChEnd(B, c, L, ch) IN
       /\ L[ch].off + 2 * NBlocks(c) <= end
       /\ \A b \in DOMAIN L[ch].blk :
            LET e == L[ch].blk[b] IN
            /\ e.bits > 0 => e.val + ValWords(c, e.bits) <= end
            /\ \A i \in 0..(IF e.bits = 0 THEN 0 ELSE BlockVox(c) - 1) :
                 TableWord(B, c, e, i) + c.wpl <= end
ValidL(B, c, L) == WFClauseL(B, c, L) = "ok" /\ ChannelsSeparateL(B, c, L)
ValidB(B, c) == ValidL(B, c, Layout(B, c))

\* ---- interface named in DESIGN.md (shape = <<C,Z,Y,X>>, block = <<bx,by,bz>>)
Cfg(shape, block, wpl) ==
  [C |-> shape[1], Z |-> shape[2], Y |-> shape[3], X |-> shape[4],
   bx |-> block[1], by |-> block[2], bz |-> block[3], wpl |-> wpl]
WellFormed(buf, shape, block, wpl) == WellFormedB(buf, Cfg(shape, block, wpl))
CSegDecode(buf, shape, block, wpl) == CSegDecodeB(buf, Cfg(shape, block, wpl))

(***************************************************************************)
(*                              DESIGN LAYER                               *)
(***************************************************************************)
(* Parse automaton of the package's reader.  One state per critical section *)
(*   ReadChannelTable -> ChannelStart -> BlockHeader -> CheckBits ->         *)
(*   LocateTable -> LocateValues -> Lookup -> Emit -> (next block/channel)   *)
(* terminal states Done, Error(clause), Crash(kind).  Lengths are in bytes   *)
(* as in the code (the slice of one channel may end inside a word).          *)
(* Error exits:  ReadChannelTable:TooShort, ChannelStart:ChannelOffset       *)
(* (and ChannelOrder with the next_checked switch), CheckBits:BadBits,       *)
(* LocateValues:ValuesOutside, Lookup:TableIndex.  BlockHeader has the exit  *)
(* Crash(struct.error) - reachable only with next_unchecked; LocateTable     *)
(* cannot fail by itself in the code (a table outside the slice becomes an   *)
(* empty table and fails at Lookup).                                         *)
Unset == 0 - 1

ParseInit(c) ==
  [pc |-> "ReadChannelTable", ch |-> 0, b |-> 0, off |-> 0, slen |-> 0,
   tab |-> 0, bits |-> 0, val |-> 0, nent |-> 0,
   out |-> [k \in 1..ArrLen(c) |-> Unset], err |-> "", lite |-> FALSE]
\* "lite" run: the same control flow without carrying the output array (used by
\* ParseOutcome, which is evaluated on thousands of recorded buffers; MC_CSeg
\* checks that it equals the stepwise automaton)
ParseInitLite(c) == [ParseInit(c) EXCEPT !.out = << >>, !.lite = TRUE]

Terminal(s) == s.pc \in {"Done", "Error", "Crash"}
Fail(s, clause) == [s EXCEPT !.pc = "Error", !.err = clause]
CrashAt(s, kind) == [s EXCEPT !.pc = "Crash", !.err = kind]

HeaderBytes(c) == 8 * NBlocks(c)
ByteOff(B, ch) == 4 * WVal(Word(B, ch))           \* <= 2^30

\* --- error guards: "" or the clause of the exit taken ----------------------
ErrReadChannelTable(B, c, s) ==
  IF B.n < c.C * (4 + HeaderBytes(c)) THEN "TooShort" ELSE ""

NextByteOff(B, c, s) == IF s.ch < c.C - 1 THEN ByteOff(B, s.ch + 1) ELSE B.n
ErrChannelStart(B, c, s) ==
  IF ByteOff(B, s.ch) + HeaderBytes(c) > B.n THEN "ChannelOffset"
  ELSE IF /\ ChannelSlice = "next_checked"
          /\ s.ch < c.C - 1
          /\ NextByteOff(B, c, s) < ByteOff(B, s.ch) + HeaderBytes(c)
       THEN "ChannelOrder"
  ELSE ""
SliceLen(B, c, s) ==
  LET o == ByteOff(B, s.ch)
      e == IF ChannelSlice = "to_end" THEN B.n ELSE MinN(NextByteOff(B, c, s), B.n)
  IN IF e > o THEN e - o ELSE 0

CrashBlockHeader(B, c, s) ==
  IF 8 * s.b + 8 > s.slen THEN "struct.error" ELSE ""

ErrCheckBits(B, c, s) == IF s.bits \notin LegalBits THEN "BadBits" ELSE ""

ErrLocateValues(B, c, s) ==
  IF 4 * s.val + 4 * CeilDiv(BlockVox(c), 32 \div s.bits) > s.slen
  THEN "ValuesOutside" ELSE ""

\* the block as the automaton sees it (absolute word positions)
CurEntry(s) == [tab |-> s.off + s.tab, bits |-> s.bits, val |-> s.off + s.val]
ErrLookup(B, c, s) ==
  IF \E i \in 0..(IF s.bits = 0 THEN 0 ELSE BlockVox(c) - 1) :
        IndexAt(B, CurEntry(s), i) >= s.nent
  THEN "TableIndex" ELSE ""

\* --- ok transitions --------------------------------------------------------
OkReadChannelTable(B, c, s) == [s EXCEPT !.pc = "ChannelStart", !.ch = 0]
OkChannelStart(B, c, s) ==
  [s EXCEPT !.pc = "BlockHeader", !.b = 0,
            !.off = WVal(Word(B, s.ch)), !.slen = SliceLen(B, c, s)]
OkBlockHeader(B, c, s) ==
  LET h0 == Word(B, s.off + 2 * s.b)
      h1 == Word(B, s.off + 2 * s.b + 1)
  IN [s EXCEPT !.pc = "CheckBits",
               !.tab = h0[1] + 65536 * (h0[2] % 256),
               !.bits = h0[2] \div 256,
               !.val = WVal(h1)]
OkCheckBits(B, c, s) == [s EXCEPT !.pc = "LocateTable"]
OkLocateTable(B, c, s) ==
  LET isz == 4 * c.wpl
      avail == IF s.slen >= 4 * s.tab THEN (s.slen - 4 * s.tab) \div isz ELSE 0
      want == IF s.bits = 32 THEN Huge ELSE Pow2(s.bits)
  IN [s EXCEPT !.pc = IF s.bits = 0 THEN "Lookup" ELSE "LocateValues",
               !.nent = MinN(want, avail)]
OkLocateValues(B, c, s) == [s EXCEPT !.pc = "Lookup"]
OkLookup(B, c, s) == [s EXCEPT !.pc = "Emit"]

\* voxels of block b (in the chunk) receive their label; padding is dropped
OkEmit(B, c, s) ==
  LET nv == NVox(c)
      hpl == HPL(c)
      e == CurEntry(s)
      newout == IF s.lite THEN s.out ELSE
                [k \in 1..ArrLen(c) |->
                   LET v == (k - 1) \div hpl
                       r == v % nv
                   IN IF v \div nv = s.ch /\ BlkOfVox(c, r) = s.b
                      THEN Half(B, 2 * TableWord(B, c, e, PosOfVox(c, r)) + ((k - 1) % hpl))
                      ELSE s.out[k]]
  IN IF s.b + 1 < NBlocks(c)
     THEN [s EXCEPT !.pc = "BlockHeader", !.b = s.b + 1, !.out = newout]
     ELSE IF s.ch + 1 < c.C
     THEN [s EXCEPT !.pc = "ChannelStart", !.ch = s.ch + 1, !.out = newout]
     ELSE [s EXCEPT !.pc = "Done", !.out = newout]

\* the exit a state takes: "" (ok transition), or an error / crash clause
ExitOf(B, c, s) ==
  CASE s.pc = "ReadChannelTable" -> ErrReadChannelTable(B, c, s)
    [] s.pc = "ChannelStart"     -> ErrChannelStart(B, c, s)
    [] s.pc = "BlockHeader"      -> CrashBlockHeader(B, c, s)
    [] s.pc = "CheckBits"        -> ErrCheckBits(B, c, s)
    [] s.pc = "LocateValues"     -> ErrLocateValues(B, c, s)
    [] s.pc = "Lookup"           -> ErrLookup(B, c, s)
    [] OTHER                     -> ""

Step(B, c, s) ==
  LET x == ExitOf(B, c, s) IN
  IF x # "" THEN (IF s.pc = "BlockHeader" THEN CrashAt(s, x) ELSE Fail(s, x))
  ELSE CASE s.pc = "ReadChannelTable" -> OkReadChannelTable(B, c, s)
         [] s.pc = "ChannelStart"     -> OkChannelStart(B, c, s)
         [] s.pc = "BlockHeader"      -> OkBlockHeader(B, c, s)
         [] s.pc = "CheckBits"        -> OkCheckBits(B, c, s)
         [] s.pc = "LocateTable"      -> OkLocateTable(B, c, s)
         [] s.pc = "LocateValues"     -> OkLocateValues(B, c, s)
         [] s.pc = "Lookup"           -> OkLookup(B, c, s)
         [] s.pc = "Emit"             -> OkEmit(B, c, s)
         [] OTHER                     -> s

Outcome(s) ==
  IF s.pc = "Done" THEN [kind |-> "ok", clause |-> "", arr |-> s.out]
  ELSE IF s.pc = "Error" THEN [kind |-> "err", clause |-> s.err, arr |-> << >>]
  ELSE [kind |-> "crash", clause |-> s.err, arr |-> << >>]

MaxSteps(c) == 2 + c.C * (1 + 7 * NBlocks(c))
\* what Emit writes, for all blocks at once (the automaton reached Done, so
\* every block passed its guards)
EmitAll(B, c) == DecodeL(B, c, Layout(B, c))
ParseOutcome(B, c) ==
  LET fin == FoldLeft(LAMBDA s, i : IF Terminal(s) THEN s ELSE Step(B, c, s),
                      ParseInitLite(c), [i \in 1..MaxSteps(c) |-> i])
  IN IF fin.pc = "Done" THEN [kind |-> "ok", clause |-> "", arr |-> EmitAll(B, c)]
     ELSE Outcome(fin)

(***************************************************************************)
(* Relational encoder (used by MC_CSeg / Gen_CSeg only).                     *)
(* IsEncodingOf(buf, arr) holds exactly for the buffers reachable by         *)
(*   EncInit ; (EncStartChannel ; EncBlock^G)^C                              *)
(* under every choice of the parameters of EncBlock, i.e. ANY table order,   *)
(* optional sharing of identical tables inside a channel, either placement  *)
(* of table and values, any legal width >= the minimal one, any value for   *)
(* padding positions.  An encoding in progress is                           *)
(*   [h : halves written so far, tabs : Seq([off, t]) tables of the channel]*)
(***************************************************************************)
Label(arr, c, v) == SubSeq(arr, v * HPL(c) + 1, (v + 1) * HPL(c))
\* positions 0..BlockVox-1 of block b -> voxel r of the channel, or -1 (padding)
VoxOfPos(c, b, i) ==
  LET bxi == b % GX(c)
      byi == (b \div GX(c)) % GY(c)
      bzi == b \div (GX(c) * GY(c))
      x == bxi * c.bx + (i % c.bx)
      y == byi * c.by + ((i \div c.bx) % c.by)
      z == bzi * c.bz + i \div (c.bx * c.by)
  IN IF x < c.X /\ y < c.Y /\ z < c.Z THEN x + c.X * (y + c.Y * z) ELSE 0 - 1
BlockLabels(arr, c, ch, b) ==
  { Label(arr, c, ch * NVox(c) + VoxOfPos(c, b, i)) :
      i \in {j \in 0..(BlockVox(c) - 1) : VoxOfPos(c, b, j) >= 0} }
CapOf(bits) == IF bits >= 31 THEN 2147483647 ELSE Pow2(bits)   \* table entries a width can address
MinBits(k) == CHOOSE bits \in LegalBits :
                 /\ CapOf(bits) >= k
                 /\ \A b2 \in LegalBits : CapOf(b2) >= k => b2 >= bits
\* the width `up` legal steps above the minimal one for k table entries
BitsSeq == <<0, 1, 2, 4, 8, 16, 32>>
WidthFor(k, up) ==
  LET m == CHOOSE j \in 1..7 : BitsSeq[j] = (IF k <= 1 THEN 0 ELSE MinBits(k))
  IN BitsSeq[MinN(7, m + up)]
PosIn(t, l) == CHOOSE j \in 1..Len(t) : t[j] = l

\* the packed value area: idx = [0..BlockVox-1 -> table index], as halves
PackHalves(c, idx, bits) ==
  IF bits = 0 THEN << >>
  ELSE IF bits = 32
  THEN [j \in 1..(2 * BlockVox(c)) |-> IF (j % 2) = 1 THEN idx[(j - 1) \div 2] ELSE 0]
  ELSE LET per == 16 \div bits
       IN [j \in 1..(2 * ValWords(c, bits)) |->
             FoldLeft(LAMBDA acc, q :
                        LET i == (j - 1) * per + q IN
                        IF i < BlockVox(c) THEN acc + idx[i] * Pow2(q * bits) ELSE acc,
                      0, [q \in 1..per |-> q - 1])]

FlattenLabels(t) == FlattenSeq(t)

\* halves of header word 0 / word 1
Hdr0Halves(tab, bits) == <<tab % 65536, (tab \div 65536) + 256 * bits>>
WordHalves(v) == <<v % 65536, v \div 65536>>

\* write `w` (halves) into h at 0-based half position p
Patch(h, p, w) == [k \in 1..Len(h) |-> IF k > p /\ k <= p + Len(w) THEN w[k - p] ELSE h[k]]

\* one block appended to the channel that starts at word `off`:
\*   t = the table (a sequence listing every label of the block exactly once),
\*   share = reuse an identical table already written in this channel,
\*   tfirst = table before values, bits, padv = index for padding positions
EncBlock(enc, arr, c, ch, b, off, t, share, tfirst, bits, padv) ==
  LET idx == [i \in 0..(BlockVox(c) - 1) |->
                LET r == VoxOfPos(c, b, i) IN
                IF r < 0 THEN padv ELSE PosIn(t, Label(arr, c, ch * NVox(c) + r)) - 1]
      vals == PackHalves(c, idx, bits)
      tw == FlattenLabels(t)
      cur == Len(enc.h) \div 2                                   \* words so far
      old == {k \in 1..Len(enc.tabs) : enc.tabs[k].t = t}
      reuse == share /\ old # {}
      tabAbs == IF reuse THEN enc.tabs[CHOOSE k \in old : TRUE].off
                ELSE IF tfirst THEN cur ELSE cur + Len(vals) \div 2
      valAbs == IF reuse THEN cur
                ELSE IF tfirst THEN cur + Len(tw) \div 2 ELSE cur
      body == IF reuse THEN vals ELSE IF tfirst THEN tw \o vals ELSE vals \o tw
      h1 == enc.h \o body
      h2 == Patch(h1, 2 * (off + 2 * b),
                  Hdr0Halves(tabAbs - off, bits) \o WordHalves(valAbs - off))
  IN [h |-> h2,
      tabs |-> IF reuse THEN enc.tabs ELSE Append(enc.tabs, [off |-> tabAbs, t |-> t])]

\* start of a channel: write its offset word, reserve the header grid
EncStartChannel(enc, c, ch) ==
  LET off == Len(enc.h) \div 2
  IN [h |-> Patch(enc.h, 2 * ch, WordHalves(off)) \o [k \in 1..(4 * NBlocks(c)) |-> 0],
      tabs |-> << >>]
EncInit(c) == [h |-> [k \in 1..(2 * c.C) |-> 0], tabs |-> << >>]
BufOf(h) == [n |-> 2 * Len(h), h |-> h]

(***************************************************************************)
(* Field mutation (C10): a structural field of a buffer and a new value.    *)
(* f = [f, ch, b, i];  values are words <<lo, hi>> (bits, index: lo only;   *)
(* len: the new length in bytes).                                           *)
(***************************************************************************)
SetWord(B, i, w) == [B EXCEPT !.h = Patch(B.h, 2 * i, w)]
FieldWord(B, c, f) ==      \* 0-based word position of the field (not for index/len)
  LET off == WVal(Word(B, f.ch)) IN
  CASE f.f = "choff"  -> f.ch
    [] f.f = "taboff" -> off + 2 * f.b
    [] f.f = "bits"   -> off + 2 * f.b
    [] f.f = "valoff" -> off + 2 * f.b + 1
    [] OTHER          -> 0

\* current value of the field, as a word
FieldSelf(B, c, f) ==
  LET w == Word(B, FieldWord(B, c, f))
      L == Layout(B, c)
  IN CASE f.f = "choff"  -> w
       [] f.f = "valoff" -> w
       [] f.f = "taboff" -> <<w[1], w[2] % 256>>
       [] f.f = "bits"   -> <<w[2] \div 256, 0>>
       [] f.f = "index"  -> <<IndexAt(B, L[f.ch].blk[f.b], f.i), 0>>
       [] f.f = "len"    -> WordHalves(B.n)
       [] OTHER          -> <<0, 0>>

Mutate(B, c, f, v) ==
  LET p == FieldWord(B, c, f)
      w == Word(B, p)
  IN CASE f.f = "choff"  -> SetWord(B, p, v)
       [] f.f = "valoff" -> SetWord(B, p, v)
       [] f.f = "taboff" -> SetWord(B, p, <<v[1], (v[2] % 256) + 256 * (w[2] \div 256)>>)
       [] f.f = "bits"   -> SetWord(B, p, <<w[1], (w[2] % 256) + 256 * (v[1] % 256)>>)
       [] f.f = "index"  ->
            LET e == Layout(B, c)[f.ch].blk[f.b] IN
            IF e.bits = 0 THEN B
            ELSE IF e.bits = 32 THEN SetWord(B, e.val + f.i, v)
            ELSE LET q == f.i * e.bits
                     hp == 2 * (e.val + (q \div 32)) + ((q % 32) \div 16)
                     sh == Pow2(q % 16)
                     m == Pow2(e.bits)
                     oldh == Half(B, hp)
                     newh == oldh - ((oldh \div sh) % m) * sh + (v[1] % m) * sh
                 IN [B EXCEPT !.h = Patch(B.h, hp, <<newh>>)]
       [] f.f = "len"    ->
            LET n == v[1] + 65536 * v[2]
                nh == (n + 1) \div 2
                raw == [k \in 1..nh |-> IF k <= Len(B.h) THEN B.h[k] ELSE 0]
                \* a cut in the middle of a half keeps its low byte only
                cut == IF (n % 2) = 1 /\ nh <= Len(B.h)
                       THEN [raw EXCEPT ![nh] = @ % 256] ELSE raw
            IN [n |-> n, h |-> cut]
       [] OTHER -> B

\* word arithmetic for boundary values
WInc(w) == IF w[1] < 65535 THEN <<w[1] + 1, w[2]>>
           ELSE IF w[2] < 65535 THEN <<0, w[2] + 1>> ELSE <<0, 0>>
WDec(w) == IF w[1] > 0 THEN <<w[1] - 1, w[2]>>
           ELSE IF w[2] > 0 THEN <<65535, w[2] - 1>> ELSE <<65535, 65535>>

\* ---- which (field, value) pairs exist: decided here, enumerated by TLC ----
\* a value descriptor is [k, n]: k = "abs" (the number n) or a symbolic
\* boundary: self-1, self+1, len-1, len, len+1 (len = file length in words),
\* clen-1, clen, clen+1 (clen = words from the start of the field's channel to
\* the end of the file), 2^24-1, 2^32-1, max (largest value of an index of the
\* block's width); for the buffer length (bytes): self-1, self+1, self-4,
\* self+4, hdr-1, hdr, hdr+1 (hdr = 4*C), min-1, min, min+1 (min = C*(4+8*G),
\* the shortest acceptable file), chend-1, chend, chend+1 (end of the header
\* grid of the last channel).
FieldRec(name, ch, b, i) == [f |-> name, ch |-> ch, b |-> b, i |-> i]
Abs(n) == [k |-> "abs", n |-> n]
Sym(s) == [k |-> s, n |-> 0]
OffsetDescs == {Abs(0), Abs(1)} \cup
               {Sym(s) : s \in {"self-1", "self+1", "len-1", "len", "len+1",
                                "clen-1", "clen", "clen+1", "2^24-1", "2^32-1"}}
BitsVals == {0, 1, 2, 3, 4, 5, 7, 8, 9, 15, 16, 17, 31, 32, 33, 64, 128, 255}
BitsDescs == {Abs(n) : n \in BitsVals} \cup {Sym("self-1"), Sym("self+1")}
IndexDescs == {Abs(0), Abs(1), Sym("self-1"), Sym("self+1"), Sym("max")}
LenDescs == {Abs(0), Abs(1), Abs(2), Abs(3)} \cup
            {Sym(s) : s \in {"self-1", "self+1", "self-4", "self+4", "hdr-1", "hdr", "hdr+1",
                             "min-1", "min", "min+1", "chend-1", "chend", "chend+1"}}

DescValue(B, c, f, d) ==
  LET self == FieldSelf(B, c, f)
      len == NWords(B)
      clen == MaxN(0, len - WVal(Word(B, f.ch)))
      hdr == 4 * c.C
      min == c.C * (4 + 8 * NBlocks(c))
      chend == MinN(Huge, 4 * WVal(Word(B, c.C - 1)) + 8 * NBlocks(c))
      e == Layout(B, c)[f.ch].blk[f.b]
  IN CASE d.k = "abs" -> WordHalves(d.n)
       [] d.k = "self-1" -> WDec(self)
       [] d.k = "self+1" -> WInc(self)
       [] d.k = "self-4" -> WordHalves(MaxN(0, B.n - 4))
       [] d.k = "self+4" -> WordHalves(B.n + 4)
       [] d.k = "len-1" -> WordHalves(MaxN(0, len - 1))
       [] d.k = "len" -> WordHalves(len)
       [] d.k = "len+1" -> WordHalves(len + 1)
       [] d.k = "clen-1" -> WordHalves(MaxN(0, clen - 1))
       [] d.k = "clen" -> WordHalves(clen)
       [] d.k = "clen+1" -> WordHalves(clen + 1)
       [] d.k = "2^24-1" -> <<65535, 255>>
       [] d.k = "2^32-1" -> <<65535, 65535>>
       [] d.k = "max" -> IF e.bits = 32 THEN <<65535, 65535>>
                         ELSE IF e.bits \in LegalBits THEN <<Pow2(e.bits) - 1, 0>> ELSE <<0, 0>>
       [] d.k = "hdr-1" -> WordHalves(MaxN(0, hdr - 1))
       [] d.k = "hdr" -> WordHalves(hdr)
       [] d.k = "hdr+1" -> WordHalves(hdr + 1)
       [] d.k = "min-1" -> WordHalves(MaxN(0, min - 1))
       [] d.k = "min" -> WordHalves(min)
       [] d.k = "min+1" -> WordHalves(min + 1)
       [] d.k = "chend-1" -> WordHalves(MaxN(0, chend - 1))
       [] d.k = "chend" -> WordHalves(chend)
       [] d.k = "chend+1" -> WordHalves(chend + 1)
       [] OTHER -> self

\* every (field, value descriptor) pair of a buffer (meant for VALID buffers)
MutPoints(B, c) ==
  LET L == Layout(B, c)
      CH == 0..(c.C - 1)
      BL == 0..(NBlocks(c) - 1)
  IN    {[f |-> FieldRec("choff", ch, 0, 0), d |-> d] : ch \in CH, d \in OffsetDescs}
   \cup {[f |-> FieldRec("taboff", ch, b, 0), d |-> d] :
            ch \in CH, b \in BL, d \in OffsetDescs \ {Sym("2^32-1")}}
   \cup {[f |-> FieldRec("bits", ch, b, 0), d |-> d] : ch \in CH, b \in BL, d \in BitsDescs}
   \cup {[f |-> FieldRec("valoff", ch, b, 0), d |-> d] : ch \in CH, b \in BL, d \in OffsetDescs}
   \cup UNION {{[f |-> FieldRec("index", ch, b, i), d |-> d] :
                   i \in 0..(BlockVox(c) - 1), d \in IndexDescs} :
               <<ch, b>> \in {p \in CH \X BL : L[p[1]].blk[p[2]].bits > 0}}
   \cup {[f |-> FieldRec("len", 0, 0, 0), d |-> d] : d \in LenDescs}
ApplyMut(B, c, m) == Mutate(B, c, m.f, DescValue(B, c, m.f, m.d))

(***************************************************************************)
(* Canonical encoding = the member of the relational family the package's   *)
(* encoder is expected to produce (sorted tables, table before values,      *)
(* minimal width, shared tables, padding = most frequent label of the       *)
(* partial block, ties -> smallest).  Design prediction only (DRIFT).       *)
(***************************************************************************)
LabelLess(a, b) ==
  \E j \in 1..Len(a) : a[j] < b[j] /\ \A k \in (j + 1)..Len(a) : a[k] = b[k]
CountIn(arr, c, ch, b, l) ==
  Cardinality({i \in 0..(BlockVox(c) - 1) :
                 VoxOfPos(c, b, i) >= 0 /\ Label(arr, c, ch * NVox(c) + VoxOfPos(c, b, i)) = l})
CanonBlock(enc, arr, c, ch, b, off, up) ==
  LET S == BlockLabels(arr, c, ch, b)
      t == SetToSortSeq(S, LabelLess)
      best == CHOOSE j \in 1..Len(t) :
                 /\ \A k \in 1..Len(t) : CountIn(arr, c, ch, b, t[k]) <= CountIn(arr, c, ch, b, t[j])
                 /\ \A k \in 1..(j - 1) : CountIn(arr, c, ch, b, t[k]) < CountIn(arr, c, ch, b, t[j])
  IN EncBlock(enc, arr, c, ch, b, off, t, TRUE, TRUE, WidthFor(Len(t), up), best - 1)
CanonEncodeUp(arr, c, up) ==
  LET perCh == 1 + NBlocks(c)
      step(enc, k) ==
        LET ch == (k - 1) \div perCh
            j == (k - 1) % perCh
        IN IF j = 0 THEN EncStartChannel(enc, c, ch)
           ELSE CanonBlock(enc, arr, c, ch, j - 1, enc.h[2 * ch + 1] + 65536 * enc.h[2 * ch + 2], up)
  IN BufOf(FoldLeft(step, EncInit(c), [k \in 1..(c.C * perCh) |-> k]).h)
CanonEncode(arr, c) == CanonEncodeUp(arr, c, 0)
=============================================================================
