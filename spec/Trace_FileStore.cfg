SPECIFICATION TSpec
CONSTANTS
  MimePolicy = "perCall"
  MaxOps = 1000
INVARIANT Emit
