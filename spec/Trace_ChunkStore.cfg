SPECIFICATION TSpec
CONSTANTS
  ValidatorBounds = "checked"
  MaxOps = 1000
  Infos = {}
INVARIANT Emit
