SPECIFICATION Spec
INVARIANT Emit
