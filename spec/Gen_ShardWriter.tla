-------------------------- MODULE Gen_ShardWriter --------------------------
(* S->C export: every behaviour (store order, then close) of the design     *)
(* layer on a small parameter space, with the files the design predicts.    *)
EXTENDS ShardWriter, Json
VARIABLE hist
gvars == <<vars, hist>>
GenGrids == {<<2,2,1>>, <<3,1,1>>, <<1,2,2>>, <<1,1,4>>}
GenTriples == {<<0,0,0>>, <<0,1,0>>, <<0,1,1>>, <<1,1,0>>, <<0,2,0>>, <<1,0,1>>, <<0,2,1>>, <<1,1,1>>}
GenCfgSpace == {[grid |-> g, pb |-> t[1], mb |-> t[2], sb |-> t[3]] : g \in GenGrids, t \in GenTriples}
GenCfgSpaceThorough == GenCfgSpace \cup
  {[grid |-> g, pb |-> t[1], mb |-> t[2], sb |-> t[3]] :
     g \in {<<1,1,5>>, <<2,3,1>>}, t \in {<<0,1,0>>, <<1,1,1>>, <<0,2,1>>}}
GenInit == Init /\ hist = << >>
GenNext == \/ \E p \in AllPos(cfg.grid) : Store(p) /\ hist' = Append(hist, p)
           \/ Close /\ hist # << >> /\ UNCHANGED hist
GenSpec == GenInit /\ [][GenNext]_gvars
Emit == phase = "closed" =>
          PrintT(<<"BEH", ToJson([cfg |-> cfg, order |-> hist, files |-> files])>>)
=============================================================================
