SPECIFICATION Spec
CONSTANTS
  ChannelSlice = "to_end"
  JpegLoad = "guarded"
INVARIANT Emit
