SPECIFICATION Spec
CONSTANTS
  BoundCheck = "gt"
  ShortHeaderExc = "meshError"
  Pairs = FALSE
  FlipRule = "detNegative"
INVARIANT ReaderMeetsOracle
INVARIANT BoundsSound
INVARIANT RoundTripModel
INVARIANT WindingModel
