------------------------------ MODULE Gen_Grid ------------------------------
(* S->C export: the (size, chunk size, channels) points of the tiler scope, *)
(* one record per initial state of the design layer.  The harness converts  *)
(* a real volume for each exported point (all of them for sizes <= 3 in the *)
(* thorough tier, a seeded sample otherwise).                               *)
EXTENDS Grid, TLC
Sizes(n) == (1..n) \X (1..n) \X (1..n)
GenCfgSpace == {[size |-> s, chunk |-> k, channels |-> c] :
                   s \in Sizes(5), k \in Sizes(4), c \in 1..3}
GenSpec == Init /\ [][UNCHANGED vars]_vars
Emit == PrintT(<<"BEH", cfg.size, cfg.chunk, cfg.channels,
                 Cardinality(ChunkSet(cfg.size, cfg.chunk))>>)
=============================================================================
