SPECIFICATION MCSpec
CONSTANTS
  WorkType = "exact"
  SigBits = 4
  TypeBits = 5
  MaxVox = 6
  MaxVox2 = 9
  MaxVoxOther = 4
INVARIANT Design
INVARIANT OracleInRange
