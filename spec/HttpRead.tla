------------------------------ MODULE HttpRead ------------------------------
(* Reading a dataset over HTTP (http_accessor / sharded_http_accessor).     *)
(*                                                                          *)
(* ENVIRONMENT (part of the specification): a static server as              *)
(* docs/serving-data.rst prescribes - flat chunk URL answered from the flat *)
(* file or, by the rewrite rule, from the deep-layout file; name.gz answers *)
(* name with Content-Encoding: gzip (gzip_static), undone by the client     *)
(* library; sharded files served without content encoding, with Range and   *)
(* HEAD support.  Per request the server behaves                            *)
(*   Normal | NotFound | ServerError | ShortRange | LongRange | IgnoreRange *)
(*   | Drop | TruncBody.                                                    *)
(* DESIGN: the client's request sequence for one fetch through a FRESH      *)
(* accessor: plain: GET info, GET chunk;  sharded: GET info (dispatch),     *)
(* GET info (sharded accessor), HEAD .shard [HEAD .index, HEAD .data],      *)
(* range GET of the shard index, range GET of every non-empty minishard     *)
(* index, range GET of the chunk.                                           *)
(* ORACLE: result = Ok(b) => b = LocalRead; no fault => Ok(LocalRead) for   *)
(* stored chunks; a fault or missing resource => Error or Ok(LocalRead),    *)
(* never empty / partial / wrong bytes.                                     *)
(* Deviation switches: LengthCheck (range replies are checked against the   *)
(* requested length), StatusCheck (raise_for_status).                       *)
EXTENDS Naturals, Sequences, FiniteSets, TLC

CONSTANTS LengthCheck, StatusCheck, MaxFaults

Beh == {"Normal", "NotFound", "ServerError", "ShortRange", "LongRange", "IgnoreRange", "Drop",
        "TruncBody", "Forbidden"}     \* TruncBody: headers announce the full length, the connection closes mid-body
Kinds == {"plain", "shard", "legacy"}

\* request sequence of one fetch; each request: [m (method), rng (is a range
\* request), need (its body is interpreted), probe (a 404 is an answer)]
R(m, rng, need, probe) == [m |-> m, rng |-> rng, need |-> need, probe |-> probe]
Reqs(kind, nMinis) ==
  IF kind = "plain" THEN << R("GET", FALSE, TRUE, FALSE), R("GET", FALSE, TRUE, FALSE) >>
  ELSE LET heads == IF kind = "shard" THEN << R("HEAD", FALSE, FALSE, TRUE) >>
                    ELSE << R("HEAD", FALSE, FALSE, TRUE), R("HEAD", FALSE, FALSE, TRUE),
                            R("HEAD", FALSE, FALSE, TRUE) >>
       IN << R("GET", FALSE, TRUE, FALSE), R("GET", FALSE, TRUE, FALSE) >> \o heads
          \o << R("GET", TRUE, TRUE, FALSE) >>
          \o [i \in 1..nMinis |-> R("GET", TRUE, TRUE, FALSE)]
          \o << R("GET", TRUE, TRUE, FALSE) >>

\* how the client reacts to behaviour b on request r:
\*  "go" (body correct), "error", "garbage" (wrong bytes taken for good ones)
React(r, b) ==
  CASE b = "Normal" -> "go"
    [] b = "Drop" -> "error"
    [] b = "TruncBody" -> IF r.m = "HEAD" THEN "go" ELSE "error"   \* the client library detects the short body
    [] b \in {"NotFound", "ServerError", "Forbidden"} ->
         IF r.m = "HEAD" /\ b = "NotFound" THEN "error"   \* a shard that should exist is reported missing
         ELSE IF StatusCheck \/ r.m = "HEAD" THEN "error" ELSE "garbage"
    [] b \in {"ShortRange", "LongRange", "IgnoreRange"} ->
         IF ~r.rng THEN "go"                               \* not a range request: behaviour does not apply
         ELSE IF LengthCheck THEN "error" ELSE "garbage"
    [] OTHER -> "error"

VARIABLES kind, nMinis, sched, pc, result
vars == <<kind, nMinis, sched, pc, result>>

\* schedules with at most MaxFaults (<= 2) non-Normal positions
Faulty == Beh \ {"Normal"}
FaultSets(n) ==
  {{}} \cup {{<<i, b>>} : i \in 1..n, b \in Faulty}
  \cup (IF MaxFaults >= 2
        THEN {{<<i, b>>, <<j, c>>} : i \in 1..n, j \in 1..n, b \in Faulty, c \in Faulty}
        ELSE {})
SchedOf(n, F) == [i \in 1..n |-> IF \E f \in F : f[1] = i
                                 THEN (CHOOSE f \in F : f[1] = i)[2] ELSE "Normal"]
Schedules(n) == {SchedOf(n, F) : F \in {G \in FaultSets(n) : \A f, g \in G : f[1] = g[1] => f = g}}

Init == /\ kind \in Kinds
        /\ nMinis \in 1..2
        /\ sched \in Schedules(Len(Reqs(kind, nMinis)))
        /\ pc = 1
        /\ result = "pending"

Step ==
  /\ result = "pending"
  /\ LET rs == Reqs(kind, nMinis) IN
     IF pc > Len(rs) THEN result' = "okCorrect" /\ UNCHANGED pc
     ELSE LET re == React(rs[pc], sched[pc]) IN
          CASE re = "go" -> pc' = pc + 1 /\ UNCHANGED result
            [] re = "error" -> result' = "error" /\ UNCHANGED pc
            [] OTHER -> result' = "okWrong" /\ UNCHANGED pc
  /\ UNCHANGED <<kind, nMinis, sched>>

Next == Step
Spec == Init /\ [][Next]_vars

NoWrongBytes == result # "okWrong"
FaultFreeEqualsLocal ==
  (result # "pending" /\ \A i \in DOMAIN sched : sched[i] = "Normal") => result = "okCorrect"
\* a fault on a request whose reply is needed never ends in success
FaultIsError ==
  (result = "okCorrect") =>
     \A i \in DOMAIN sched :
        \/ sched[i] = "Normal"
        \/ (sched[i] \in {"ShortRange", "LongRange", "IgnoreRange"} /\ ~Reqs(kind, nMinis)[i].rng)
        \/ (sched[i] = "TruncBody" /\ Reqs(kind, nMinis)[i].m = "HEAD")
=============================================================================
