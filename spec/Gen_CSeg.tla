------------------------------ MODULE Gen_CSeg ------------------------------
(* S->C export (function-like: one initial state = one input point).        *)
(*                                                                          *)
(* Part = "arrays"  : the tiny scope for the real ENCODER (C02): every      *)
(*    array over 2 labels on chunks <= 2x2x2 with <= 8 voxels in total,     *)
(*    every block size <= 2x2x2 (cubic and non-cubic), 1-2 channels, uint32 *)
(*    and uint64.  Each point carries the canonical encoding the design     *)
(*    layer expects (sorted shared tables ...; compared as DRIFT only).     *)
(* Part = "mutants" : field-targeted mutants for the real DECODER (C10):    *)
(*    for valid encodings of the mutation bases (canonical layout, widths   *)
(*    0..5 legal steps above the minimal one) EVERY pair in MutPoints:      *)
(*    structural field (channel offset, table offset, bits byte, values     *)
(*    offset, one packed table index, buffer length) x boundary value.      *)
(*    TLC builds the mutated buffer itself; the harness only feeds it to    *)
(*    the real decoder.                                                     *)
(* Part = "valid"   : canonical (hence Valid) encodings of larger, mostly    *)
(*    non-cubic configurations, used as known-valid decoder inputs and as   *)
(*    bases for byte-level corruption (C10).                                *)
(* Tier = "quick" enumerates a sub-scope, "full" the whole scope.           *)
EXTENDS CSegScope, Json

CONSTANTS Part, Tier

VARIABLE pt
vars == <<pt>>

\* ---- arrays ----------------------------------------------------------------
ArrCfgs ==
  IF Tier = "full" THEN {b \in Bases({1, 2}, {1, 2}) : Small(b, 8)}
  ELSE {b \in Bases({1, 2}, {1, 2}) : Small(b, 4)} \cup
       {b \in Bases({1}, {1}) : b.X * b.Y * b.Z = 8 /\ ~Cubic(b)} \cup
       {b \in Bases({1}, {2}) : b.X * b.Y * b.Z = 8 /\ b.bx = 2 /\ b.by = 1}
ArrInit ==
  \E c \in ArrCfgs : \E f \in [1..NLabels(c) -> 0..1] :
     LET a == ArrOf(c, f)
     IN pt = [kind |-> "arr", cfg |-> c, arr |-> a, canon |-> CanonEncode(a, c)]

\* ---- mutants ---------------------------------------------------------------
MutCfgs == IF Tier = "full" THEN MutBasesFull ELSE MutBasesQuick
MutUps == IF Tier = "full" THEN {0, 1, 2, 3, 4, 5} ELSE {0, 2, 5}
MutInit ==
  \E c \in MutCfgs : \E up \in MutUps : \E f \in RampFuns(c, 3) :
     LET base == CanonEncodeUp(ArrOf(c, f), c, up)
     IN \E m \in MutPoints(base, c) :
          pt = [kind |-> "mut", cfg |-> c, up |-> up, f |-> m.f, d |-> m.d,
                buf |-> ApplyMut(base, c, m)]

\* ---- valid encodings of larger, mostly non-cubic configurations -------------
\* (C10: "valid data is never rejected" must not depend on the health of the
\* package's own encoder; these are built by the canonical encoder of the
\* design layer and are Valid by MC_CSeg's EncodingValid)
ValidShapes == IF Tier = "full"
               THEN {<<3, 4, 2>>, <<4, 3, 3>>, <<2, 3, 4>>, <<4, 4, 4>>, <<3, 1, 5>>, <<5, 2, 3>>, <<1, 4, 3>>}
               ELSE {<<3, 4, 2>>, <<4, 3, 3>>, <<3, 1, 5>>}
ValidBlocks == IF Tier = "full"
               THEN {<<3, 2, 1>>, <<2, 3, 4>>, <<4, 2, 2>>, <<1, 3, 2>>, <<2, 2, 3>>, <<3, 3, 2>>,
                     <<2, 2, 2>>, <<4, 4, 3>>, <<1, 1, 3>>}
               ELSE {<<3, 2, 1>>, <<2, 3, 4>>, <<4, 2, 2>>, <<2, 2, 3>>}
ValidInit ==
  \E sh \in ValidShapes : \E bl \in ValidBlocks : \E C \in {1, 2} : \E w \in {1, 2} :
  \E K \in {1, 2, 3} :
     LET c == Base(C, sh[1], sh[2], sh[3], bl[1], bl[2], bl[3], w)
     IN \E f \in RampFuns(c, K) :
          pt = [kind |-> "valid", cfg |-> c, K |-> K, arr |-> ArrOf(c, f),
                buf |-> CanonEncode(ArrOf(c, f), c)]

Init == IF Part = "arrays" THEN ArrInit ELSE IF Part = "mutants" THEN MutInit ELSE ValidInit
Next == UNCHANGED pt
Spec == Init /\ [][Next]_vars
Emit == PrintT(<<"BEH", ToJson(pt)>>)
=============================================================================
