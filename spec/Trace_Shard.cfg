SPECIFICATION Spec
INVARIANT Emit
