------------------------------ MODULE ScaleGen ------------------------------
(* C08 - generated scale metadata is consistent and usable by every later   *)
(* step.                                                                    *)
(*                                                                          *)
(* A case / instance is a record                                            *)
(*   [size   : <<sx, sy, sz>>            full-resolution size (1 .. 10^9)   *)
(*    res    : <<<<p,q>>, <<p,q>>, <<p,q>>>>  nominal voxel size p/q * 10^s *)
(*    s      : 0 | 3 | 6                 nm (decimal scale shared by axes)  *)
(*    T      : target chunk size = 2^T                                      *)
(*    maxs   : max_scales, 0 = no limit]                                    *)
(* and a generated pyramid is a sequence of scales                          *)
(*   [key   : STRING,                                                       *)
(*    size  : <<..>>, chunk : <<..>>,                                       *)
(*    ratio : <<<<e,a,b>>, ..>>]     resolution of the scale divided by the *)
(*                                   full resolution, EXACT = 2^e * a / b   *)
(*                                   with a, b odd (the harness divides the *)
(*                                   two floats as rationals; <<0,0,0>>     *)
(*                                   when a or b does not fit 31 bits)      *)
(*                                                                          *)
(* ORACLE layer  ValidPyramid  (from the property text; DESIGN.md 5.C08):   *)
(*   KeysDistinct    scale keys pairwise distinct                           *)
(*   ResolutionRule  res_k = res_0 * F_k, F_k per-axis power of two, F_0 = 1*)
(*   SizeRule        size_k = ceil(size_0 / F_k)                            *)
(*   FactorSteps     F_(k+1) / F_k in {1, 2} per axis (non-decreasing)      *)
(*   ChunkSizes      powers of two, |sum log2 - 3 T| <= 1                   *)
(*   LastScaleFits   last scale <= 2 * target per axis, unless the number   *)
(*                   of scales was cut by max_scales                        *)
(*   IsotropyOrder   (i)  an axis with a strictly coarser voxel never       *)
(*                   starts downscaling before a finer one                  *)
(*   IsotropyBound   (ii) at every level at which all axes are being / have *)
(*                   been halved, max/min resolution <= 2                   *)
(*   IsotropyClosest (iii) at those levels every axis is within sqrt(2) of  *)
(*                   the axis that was finest at full resolution ("as close *)
(*                   to isotropic as possible", the generator's docstring)  *)
(*   PairAssemblable every consecutive pair has, on every axis, the         *)
(*                   PyramidAssembly outcome "Correct" ("accepted by the    *)
(*                   pyramid computation ... compatible chunk sizes").  The *)
(*                   failing outcome (Error | SilentWrong) is reported with *)
(*                   the clause so that the two can be told apart.          *)
(* Interpretations (weaker reading chosen): "about the target number of     *)
(* voxels" = the generator's own tolerance of one binary order; "tend       *)
(* towards isotropy" = (i) and (ii) - the reading "the anisotropy never     *)
(* increases" is NOT demanded (DESIGN.md: over-strict for three axes);      *)
(* minimality of the number of scales is not demanded.                      *)
(*                                                                          *)
(* DESIGN layer: dyadic_pyramid.fill_scales_for_dyadic_pyramid transcribed  *)
(* in exponent space (Delays, FactorExp, ChunkExps, NumLevels, UnitFor,     *)
(* KeyOf, Raises) and the set_info_params decision table (SetInfoParams).   *)
(* Deviation switches (first position = conforming = the code at HEAD):      *)
(*   StopRule   "plusDelay" | "minusDelay"  the stop criterion adds /        *)
(*              subtracted the axis delay (fixed by 2aa715b)                 *)
(*   ChunkRule  "delayAware" | "code"  anisotropy factor D - max(d, L) /     *)
(*              max(0, D - d - L) (fixed by 73c9bcc)                         *)
(*   ReduceRule "loop" | "once"  the excess-anisotropy reduction is repeated *)
(*              until the chunk fits / applied once, then asserted (5958906) *)
(*   KeyRule    "fallback" | "single"  the key unit falls back to finer      *)
(*              units until all keys are distinct / only the unit chosen for *)
(*              the finest axis (0e6f55d)                                    *)
(*   AssignRule "strict" | "numpy"  see PyramidAssembly (aaf61b3)            *)
EXTENDS Bits, Integers, TLC

CONSTANTS StopRule, ChunkRule, ReduceRule, KeyRule, AssignRule

PA == INSTANCE PyramidAssembly
        WITH CfgSpace <- {}, cfg <- 0, i <- 0, part <- "", dest <- << >>, level <- << >>,
             AssignRule <- AssignRule

Axes == 1..3
Pow2(n) == 2 ^ n
Min2(a, b) == IF a < b THEN a ELSE b
Max2(a, b) == IF a > b THEN a ELSE b
CeilDiv(a, b) == (a + b - 1) \div b
IsPow2(x) == PA!IsPow2(x)
Log2(x) == CHOOSE e \in 0..30 : Pow2(e) = x
Abs(x) == IF x < 0 THEN 0 - x ELSE x
Sum3(t) == t[1] + t[2] + t[3]
MaxOf3(t) == Max2(t[1], Max2(t[2], t[3]))

\* p1/q1 * 2^e1 <= p2/q2 * 2^e2   (p, q < 2^12 after the harness' choice of
\* inputs, so the cross products stay below 2^24)
PowLeq(r1, e1, r2, e2) ==
  LET a == r1[1] * r2[2]
      b == r2[1] * r1[2]
      d == e1 - e2
  IN IF d >= 25 THEN FALSE
     ELSE IF d >= 0 THEN a <= b \div Pow2(d)
     ELSE IF d <= 0 - 25 THEN TRUE
     ELSE \* a <= b * 2^-d  <=>  ceil(a / 2^-d) <= b
          CeilDiv(a, Pow2(0 - d)) <= b
PowLess(r1, e1, r2, e2) == ~PowLeq(r2, e2, r1, e1)

\* ================================================================ ORACLE ==
FactorExp(sc, a) ==      \* -1 when the ratio is not a power of two >= 1
  IF sc.ratio[a][2] = 1 /\ sc.ratio[a][3] = 1 /\ sc.ratio[a][1] >= 0 THEN sc.ratio[a][1] ELSE 0 - 1

ClauseKeys(scales) ==
  \A x, y \in 1..Len(scales) : x # y => scales[x].key # scales[y].key
ClauseResolution(scales) ==
  /\ \A k \in 1..Len(scales) : \A a \in Axes : FactorExp(scales[k], a) >= 0
  /\ \A a \in Axes : FactorExp(scales[1], a) = 0
ClauseSize(c, scales) ==
  \A k \in 1..Len(scales) : \A a \in Axes :
     LET e == FactorExp(scales[k], a) IN
     scales[k].size[a] = (IF e >= 30 THEN 1 ELSE CeilDiv(c.size[a], Pow2(e)))
ClauseSteps(scales) ==
  \A k \in 1..(Len(scales) - 1) : \A a \in Axes :
     FactorExp(scales[k + 1], a) - FactorExp(scales[k], a) \in {0, 1}
ClauseChunks(c, scales) ==
  \A k \in 1..Len(scales) :
     /\ \A a \in Axes : IsPow2(scales[k].chunk[a])
     /\ Abs(Sum3([a \in Axes |-> Log2(scales[k].chunk[a])]) - 3 * c.T) <= 1
ClauseLast(c, scales) ==
  \/ (c.maxs > 0 /\ Len(scales) = c.maxs)
  \/ \A a \in Axes : scales[Len(scales)].size[a] <= 2 * Pow2(c.T)
\* first scale at which axis a has been halved (Len+1: never)
StartOf(scales, a) ==
  LET S == {k \in 1..Len(scales) : FactorExp(scales[k], a) >= 1}
  IN IF S = {} THEN Len(scales) + 1 ELSE CHOOSE k \in S : \A j \in S : k <= j
ClauseIsoOrder(c, scales) ==
  \A a, b \in Axes :
     PowLess(c.res[b], 0, c.res[a], 0) => StartOf(scales, a) >= StartOf(scales, b)
AllHalved(scales, k) ==
  \/ \A a \in Axes : FactorExp(scales[k], a) >= 1
  \/ (k < Len(scales) /\
      \A a \in Axes : FactorExp(scales[k + 1], a) > FactorExp(scales[k], a))
ClauseIsoBound(c, scales) ==
  \A k \in 1..Len(scales) : AllHalved(scales, k) =>
     \A a, b \in Axes :
        PowLeq(c.res[a], FactorExp(scales[k], a), c.res[b], FactorExp(scales[k], b) + 1)

\* (iii) docstring of fill_scales_for_dyadic_pyramid: "only the dimensions with the smallest
\* voxel size are downscaled until the downscaled voxels are AS CLOSE TO ISOTROPIC AS POSSIBLE":
\* with power-of-two factors that is, for every axis, a voxel size within a factor sqrt(2) of
\* the axis that was finest at full resolution, from the level at which all axes are halved
\* (compared on squares: r_a^2 4^Fa <= 2 r_f^2 4^Ff and conversely)
\* r1^2 4^e1 <= 2 r2^2 4^e2 on cross-multiplied integers (P, Q < 32768: squares stay below 2^31)
SqLeq2(r1, e1, r2, e2) ==
  LET P == r1[1] * r2[2]
      Q == r2[1] * r1[2]
      D == e1 - e2
  IN IF D >= 16 THEN FALSE
     ELSE IF D >= 0 THEN P * P <= (2 * Q * Q) \div Pow2(2 * D)
     ELSE IF D <= 0 - 16 THEN TRUE
     ELSE CeilDiv(P * P, Pow2(0 - 2 * D)) <= 2 * Q * Q
FinestAxis(c) == CHOOSE a \in Axes : \A b \in Axes : PowLeq(c.res[a], 0, c.res[b], 0)
ClauseIsoClosest(c, scales) ==
  LET f == FinestAxis(c) IN
  \A k \in 1..Len(scales) : AllHalved(scales, k) =>
     \A a \in Axes :
        /\ SqLeq2(c.res[a], FactorExp(scales[k], a), c.res[f], FactorExp(scales[k], f))
        /\ SqLeq2(c.res[f], FactorExp(scales[k], f), c.res[a], FactorExp(scales[k], a))

PairFactor(scales, k, a) == IF scales[k].size[a] = scales[k + 1].size[a] THEN 1 ELSE 2
PairOutcome(scales, k, a) ==
  PA!OutcomeCF(scales[k].size[a], scales[k].chunk[a], scales[k + 1].chunk[a],
               PairFactor(scales, k, a))
BadPairs(scales) ==
  {ka \in (1..(Len(scales) - 1)) \X Axes : PairOutcome(scales, ka[1], ka[2]) # "Correct"}
ClausePairs(scales) == BadPairs(scales) = {}

Str(n) == ToString(n)
PairWorst(scales) ==
  IF \E x \in BadPairs(scales) : PairOutcome(scales, x[1], x[2]) = "SilentWrong"
  THEN "S" ELSE "E"
\* the first bad pair (lowest level, then lowest axis): "@level,axis,E|S,
\* number of bad (level, axis) pairs, number of them that are SilentWrong"
PairDetail(scales) ==
  LET B == BadPairs(scales)
      m == CHOOSE x \in B : \A y \in B : x[1] < y[1] \/ (x[1] = y[1] /\ x[2] <= y[2])
  IN "@" \o Str(m[1] - 1) \o "," \o Str(m[2] - 1) \o ","
     \o (IF PairOutcome(scales, m[1], m[2]) = "SilentWrong" THEN "S" ELSE "E")
     \o "," \o Str(Cardinality(B)) \o ","
     \o Str(Cardinality({x \in B : PairOutcome(scales, x[1], x[2]) = "SilentWrong"}))

\* ALL failing clauses of ValidPyramid as a compact code (TLC wraps long
\* output lines, so verdict records must stay short): one letter per clause
\*   K KeysDistinct   R ResolutionRule  S SizeRule      F FactorSteps
\*   C ChunkSizes     L LastScaleFits   O IsotropyOrder B IsotropyBound
\*   I IsotropyClosest
\*   P PairAssemblable (followed by PairDetail, or by the worst outcome)
\* clauses that need FactorExp are skipped when ResolutionRule fails
FailListD(c, scales, short) ==
  LET resok == ClauseResolution(scales)
      chok == ClauseChunks(c, scales)
  IN (IF ClauseKeys(scales) THEN "" ELSE "K")
     \o (IF resok THEN "" ELSE "R")
     \o (IF ~resok \/ ClauseSize(c, scales) THEN "" ELSE "S")
     \o (IF ~resok \/ ClauseSteps(scales) THEN "" ELSE "F")
     \o (IF chok THEN "" ELSE "C")
     \o (IF ClauseLast(c, scales) THEN "" ELSE "L")
     \o (IF ~resok \/ ClauseIsoOrder(c, scales) THEN "" ELSE "O")
     \o (IF ~resok \/ ClauseIsoBound(c, scales) THEN "" ELSE "B")
     \o (IF ~resok \/ ClauseIsoClosest(c, scales) THEN "" ELSE "I")
     \o (IF ~chok \/ ClausePairs(scales) THEN ""
         ELSE "P" \o (IF short THEN PairWorst(scales) ELSE PairDetail(scales)))

FailList(c, scales) == FailListD(c, scales, FALSE)
ValidPyramid(c, scales) == Len(scales) >= 1 /\ FailList(c, scales) = ""

\* ================================================================ DESIGN ==
\* Every design operator takes the instance c and g = G(c), the quantities
\* the code computes once before the loop (TLC re-evaluates definitions at
\* each use, a LET-bound g is evaluated once).
\* ---- axis delays: round(log2(r / rmin)) ---------------------------------
BestAxis(c) == CHOOSE a \in Axes : \A b \in Axes : PowLeq(c.res[a], 0, c.res[b], 0)
\* d with 2^(2d-1) < (P/Q)^2 < 2^(2d+1); P/Q >= 1, P < 46341
DelayOf(r, rmin) ==
  LET P == r[1] * rmin[2]
      Q == r[2] * rmin[1]
      X == (P * P - 1) \div (Q * Q)
      D == {d \in 1..15 : Pow2(2 * d - 1) <= X}
  IN IF D = {} THEN 0 ELSE CHOOSE d \in D : \A x \in D : x <= d
Delays(c) == LET m == c.res[BestAxis(c)] IN [a \in Axes |-> DelayOf(c.res[a], m)]

\* ---- keys ------------------------------------------------------------------
UnitExp == <<12, 9, 6, 3, 0, 0 - 3>>          \* unit = 10^u nm
UnitName == <<"km", "m", "mm", "um", "nm", "pm">>
\* long division of a bit sequence by a small integer
DivSmall(b, den) ==
  LET step(acc, bit) ==
        LET r == 2 * acc.r + bit IN
        IF r >= den THEN [q |-> <<1>> \o acc.q, r |-> r - den]
        ELSE [q |-> <<0>> \o acc.q, r |-> r]
      dv == FoldLeft(step, [q |-> << >>, r |-> 0], Reverse(b))
  IN [q |-> Norm(dv.q), r |-> dv.r]
\* ... then half-even rounding
DivRoundHE(numBits, den) ==
  LET dv == DivSmall(numBits, den)
      up == 2 * dv.r > den \/ (2 * dv.r = den /\ BitAt(dv.q, 0) = 1)
  IN IF up THEN Add(dv.q, <<1>>) ELSE dv.q
RoundHEInt(num, den) ==
  LET q == num \div den
      r == num % den
  IN IF 2 * r > den \/ (2 * r = den /\ q % 2 = 1) THEN q + 1 ELSE q
Pow10(k) == 10 ^ k
Mul10(b) == Add(ShiftL(b, 3), ShiftL(b, 1))
RECURSIVE MulPow10(_, _)
MulPow10(b, k) == IF k = 0 THEN b ELSE MulPow10(Mul10(b), k - 1)
\* round(p/q * 2^e * 10^m), m in -3..12, as a bit sequence (integer arithmetic
\* while everything stays below 2^30, bit sequences beyond)
Rounded(r, e, m) ==
  LET den == r[2] * Pow10(Max2(0 - m, 0))
  IN IF e <= 8 /\ m <= 3
     THEN FromNat(RoundHEInt(r[1] * Pow10(Max2(m, 0)) * Pow2(e), den))     \* < 2^30
     ELSE DivRoundHE(ShiftL(MulPow10(FromNat(r[1]), Max2(m, 0)), e), den)
RECURSIVE DecStr(_)
DecStr(b) == IF Len(b) <= 30 THEN ToString(ToNat(b))
             ELSE LET dv == DivSmall(b, 10) IN DecStr(dv.q) \o ToString(dv.r)

\* choose_unit_for_key(best resolution): first unit whose rounded value is
\* non-zero and differs from the rounded value of twice the resolution.
\* m = s - u; for m <= -4 the value is < 0.5 (p/q < 5000): rejected; m >= 4
\* would mean a value >= 100 in a coarser unit, which is accepted first.
UnitOk(c, ui) ==
  LET m == c.s - UnitExp[ui]
      r == c.res[BestAxis(c)]
  IN /\ m >= 0 - 3
     /\ m <= 3
     /\ Rounded(r, 0, m) # << >>
     /\ Rounded(r, 0, m) # Rounded(r, 1, m)
UnitFor(c) ==
  LET S == {ui \in 1..6 : UnitOk(c, ui)}
  IN IF S = {} THEN 0 ELSE CHOOSE ui \in S : \A x \in S : ui <= x

\* ceil(log2(size / 2^T)) (may be negative)
CeilLog(size, T) ==
  (CHOOSE x \in 0..30 : size <= Pow2(x) /\ (x = 0 \/ size > Pow2(x - 1))) - T

\* key number of level L in unit ui (minimum resolution of the level)
KeyNumU(c, d, L, ui) ==
  LET e == [a \in Axes |-> Max2(0, L - d[a])]
      a0 == CHOOSE a \in Axes : \A b \in Axes : PowLeq(c.res[a], e[a], c.res[b], e[b])
  IN Rounded(c.res[a0], e[a0], c.s - UnitExp[ui])
KeysU(c, d, levels, ui) == [k \in 1..levels |-> KeyNumU(c, d, k - 1, ui)]
Distinct(sq) == \A x, y \in 1..Len(sq) : x # y => sq[x] # sq[y]

G(c) ==
  LET d == Delays(c)
      raw == MaxOf3([a \in Axes |-> IF StopRule = "plusDelay"
                                    THEN CeilLog(c.size[a], c.T) + d[a]
                                    ELSE CeilLog(c.size[a], c.T) - d[a]])
      cut == IF c.maxs > 0 THEN Min2(raw, c.maxs) ELSE raw
      levels == Max2(cut, 1)
      u0 == UnitFor(c)
      \* KeyRule "fallback": the first unit from u0 on (towards finer units)
      \* that gives pairwise distinct keys; 0 = none (NotImplementedError)
      k0 == IF u0 = 0 THEN << >> ELSE KeysU(c, d, levels, u0)
      U == {ui \in (u0 + 1)..6 : Distinct(KeysU(c, d, levels, ui))}
      unit == IF u0 = 0 \/ KeyRule = "single" \/ Distinct(k0) THEN u0
              ELSE IF U = {} THEN 0 ELSE CHOOSE ui \in U : \A x \in U : ui <= x
  IN [d |-> d, D |-> MaxOf3(d), unit |-> unit, levels |-> levels,
      keys |-> IF unit = 0 THEN << >> ELSE IF unit = u0 THEN k0 ELSE KeysU(c, d, levels, unit)]
NumLevels(c, g) == g.levels

FactorExps(c, g, L) == [a \in Axes |-> Max2(0, L - g.d[a])]

\* ---- chunk exponents -----------------------------------------------------
Aniso0(c, g, L) ==
  [a \in Axes |-> IF ChunkRule = "delayAware" THEN Max2(0, g.D - Max2(g.d[a], L))
                  ELSE Max2(0, g.D - g.d[a] - L)]
ReduceOnce(A, T) ==
  LET ex == Sum3(A) - 3 * T
      nz == Cardinality({a \in Axes : A[a] # 0})
  IN [a \in Axes |-> Max2(A[a] - CeilDiv(ex, nz), 0)]
RECURSIVE ReduceLoop(_, _)
ReduceLoop(A, T) == IF Sum3(A) - 3 * T > 0 THEN ReduceLoop(ReduceOnce(A, T), T) ELSE A
Aniso(c, g, L) ==
  LET A == Aniso0(c, g, L) IN
  IF Sum3(A) - 3 * c.T <= 0 THEN A
  ELSE IF ReduceRule = "loop" THEN ReduceLoop(A, c.T) ELSE ReduceOnce(A, c.T)
LevelRaises(c, g, L) ==       \* the two assertions of downscale_info
  LET S == Sum3(Aniso(c, g, L)) IN
  S > 3 * c.T \/ c.T - ((S + 1) \div 3) < 0
ChunkExps(c, g, L) ==
  LET A == Aniso(c, g, L)
      base == c.T - ((Sum3(A) + 1) \div 3)
  IN [a \in Axes |-> base + A[a]]

KeyNum(c, g, L) == g.keys[L + 1]
KeyOf(c, g, L) == DecStr(KeyNum(c, g, L)) \o UnitName[g.unit]

\* ---- the generator -------------------------------------------------------
Raises(c, g) ==
  \/ g.unit = 0
  \/ \E L \in 0..(g.levels - 1) : LevelRaises(c, g, L)

DesignScale(c, g, L) ==
  LET e == FactorExps(c, g, L)
      ce == ChunkExps(c, g, L)
  IN [key |-> KeyOf(c, g, L),
      size |-> [a \in Axes |-> IF e[a] >= 30 THEN 1 ELSE CeilDiv(c.size[a], Pow2(e[a]))],
      ratio |-> [a \in Axes |-> <<e[a], 1, 1>>],
      chunk |-> [a \in Axes |-> Pow2(ce[a])]]
DesignScales(c, g) == [k \in 1..g.levels |-> DesignScale(c, g, k - 1)]

\* ---- per-axis (old chunk, new chunk, factor ratio) triples the generator
\*      emits for given resolutions and target on a large enough volume (C06)
EmitTriples(c, g, levels) ==
  { <<Pow2(ChunkExps(c, g, L)[a]), Pow2(ChunkExps(c, g, L + 1)[a]),
      IF L >= g.d[a] THEN 2 ELSE 1>> :
      L \in {x \in 0..(levels - 2) : ~LevelRaises(c, g, x) /\ ~LevelRaises(c, g, x + 1)},
      a \in Axes }

\* ---- set_info_params decision table ----------------------------------------
\* arguments "" = not given / absent from the input info
SetInfoParams(inType, inEnc, argType, argEnc, dtype, hasBlock) ==
  LET enc == IF argEnc # "" THEN argEnc ELSE IF inEnc # "" THEN inEnc ELSE "raw"
      typ == IF argType # "" THEN argType ELSE IF inType # "" THEN inType
             ELSE IF enc = "compressed_segmentation" THEN "segmentation" ELSE "image"
      dt == IF enc = "compressed_segmentation" /\ dtype \in {"uint8", "uint16"}
            THEN "uint32" ELSE dtype
  IN [encoding |-> enc, type |-> typ, data_type |-> dt,
      block |-> IF enc = "compressed_segmentation" THEN "set" ELSE
                IF hasBlock THEN "kept" ELSE "absent"]
\* an encoder exists for the reconciled parameters (what get_encoder needs)
Satisfiable(p, channels) ==
  CASE p.encoding = "raw" -> TRUE
    [] p.encoding = "compressed_segmentation" -> p.data_type \in {"uint32", "uint64"}
    [] p.encoding = "jpeg" -> p.data_type = "uint8" /\ channels \in {1, 3}
    [] OTHER -> FALSE
=============================================================================
