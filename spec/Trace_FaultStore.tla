-------------------------- MODULE Trace_FaultStore --------------------------
(* Judge one injected run of a real accessor operation (C18).               *)
(* mode "short": the k-th write stores only the first half of its data (a   *)
(* POSIX short write: full disk, file size limit); a buffered file object   *)
(* then fails on the remainder (error raised), a raw one reports the count. *)
(* case: [mode ("none"|"fail"|"short"|"crash"|"torn"), fired, optype ("store"|      *)
(*        "fetch"|"exists"), outcome: [st ("returned"|"raised"|"crashed"),  *)
(*        osErr, dataAccess], ret: [has, data], expRet,                     *)
(*        targets: Seq([st, data, new, hasold, old]),                       *)
(*        others:  Seq([st, data, exp])]                                    *)
(* targets/others are what a FRESH accessor + PrecomputedIO reads afterwards *)
EXTENDS Naturals, Sequences, Json, IOUtils, TLC

Cases == ndJsonDeserialize(IOEnv.TRACE_FILE)
VARIABLES tid, done

ClassOf(t) == IF t.st # "ok" THEN "Invalid"
              ELSE IF t.data = t.new THEN "Correct"
              ELSE IF t.hasold /\ t.data = t.old THEN "Old"
              ELSE "Wrong"

OthersIntact(c) == \A i \in 1..Len(c.others) : c.others[i].st = "ok" /\ c.others[i].data = c.others[i].exp
OthersNotWrong(c) == \A i \in 1..Len(c.others) : c.others[i].st # "ok" \/ c.others[i].data = c.others[i].exp
TargetsCorrect(c) == \A i \in 1..Len(c.targets) : ClassOf(c.targets[i]) = "Correct"
TargetsUnchangedOrCorrect(c) == \A i \in 1..Len(c.targets) : ClassOf(c.targets[i]) \in {"Correct", "Old"}

Clause(c) ==
  IF c.mode = "none" \/ ~c.fired
  THEN \* fault-free run: must succeed with its postcondition
       (IF c.outcome.st # "returned" THEN "oracle:FaultFreeBroken"
        ELSE IF c.optype = "store" /\ ~TargetsCorrect(c) THEN "oracle:FaultFreeBroken"
        ELSE IF c.optype # "store" /\ c.ret.data # c.expRet THEN "oracle:FaultFreeBroken"
        ELSE IF ~OthersIntact(c) THEN "oracle:OthersChanged"
        ELSE "ok")
  ELSE IF c.mode \in {"fail", "short"}
  THEN (IF c.outcome.st = "raised" /\ ~(c.outcome.osErr \/ c.outcome.dataAccess)
           THEN "oracle:UnrelatedException"
        ELSE IF c.outcome.st = "returned" /\ c.optype = "store" /\ ~TargetsCorrect(c)
           THEN "oracle:SilentFailure"
        ELSE IF c.outcome.st = "returned" /\ c.optype # "store" /\ c.ret.data # c.expRet
           THEN "oracle:SilentWrongResult"
        ELSE IF ~OthersIntact(c) THEN "oracle:OthersChanged"
        \* a failed store must not leave WRONG data behind either
        ELSE IF c.optype = "store" /\ \E i \in 1..Len(c.targets) : ClassOf(c.targets[i]) = "Wrong"
           THEN "oracle:WrongAfterFailure"
        \* a store that failed BEFORE its file was opened for writing (stat, mkdir, open)
        \* has not legitimately touched the earlier content of that name
        ELSE IF c.optype = "store" /\ c.outcome.st = "raised" /\ c.failkind \in {"stat", "mkdir", "open"}
                /\ \E i \in 1..Len(c.targets) :
                      c.targets[i].hasold /\ ClassOf(c.targets[i]) \notin {"Old", "Correct"}
           THEN "oracle:OldDestroyedBeforeWrite"
        ELSE "ok")
  ELSE \* crash / torn
       (IF \E i \in 1..Len(c.targets) : ClassOf(c.targets[i]) = "Wrong" THEN "oracle:WrongAfterCrash"
        \* gzip layer: the CRC/length trailer makes truncation detectable at the accessor
        \* itself - the bytes it returns for a .gz chunk are the new ones, the old ones,
        \* nothing at all (file created, nothing written yet), or an error
        ELSE IF c.gzlayer /\ \E i \in 1..Len(c.targets) :
                  LET t == c.targets[i] IN
                  t.ast = "ok" /\ t.adata # t.new /\ t.adata # << >> /\ ~(t.hasold /\ t.adata = t.old)
             THEN "oracle:TruncatedGzipReadSilently"
        ELSE IF ~OthersNotWrong(c) THEN "oracle:OthersWrongAfterCrash"
        ELSE "ok")

Init == tid \in 1..Len(Cases) /\ done = FALSE
Next == ~done /\ done' = TRUE /\ UNCHANGED tid
Spec == Init /\ [][Next]_<<tid, done>>
Emit == done =>
        LET cl == Clause(Cases[tid]) IN
        PrintT(<<"VERDICT", tid, IF cl = "ok" THEN "ok" ELSE "bad", cl, 0>>)
=============================================================================
