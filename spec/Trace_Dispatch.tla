--------------------------- MODULE Trace_Dispatch ---------------------------
(* Trace specification for the dataset life cycle of Dispatch.tla.           *)
(*                                                                          *)
(* One case = one history run on a REAL dataset directory: every event is    *)
(* one real call (metadata written by the harness, get_accessor_for_url,     *)
(* store_chunk, close) with its outcome class, followed by what was          *)
(* observed right after it:                                                  *)
(*   obs.plain / obs.shard  payload id found as a plain chunk file / inside  *)
(*                          the shard file (independent readers), 0 = none   *)
(*   fresh                  fetch_chunk through accessors that the REAL      *)
(*                          dispatcher builds now, one per URL form          *)
(* The ghost variables of Dispatch (latest, epoch, openedFor, pend, kind)    *)
(* are advanced from the recorded outcomes; the ORACLE clauses are evaluated *)
(* on them, the DESIGN layer (decision table Route, predicted storage form)  *)
(* only yields DRIFT lines.                                                  *)
EXTENDS Dispatch, Json, IOUtils, Sequences

Cases == ndJsonDeserialize(IOEnv.TRACE_FILE)

VARIABLES tid, l, status, clause
tvars == <<tid, l, status, clause>>
allvars == <<vars, tvars>>

Ev == Cases[tid].events[l]
HandleKinds == {"plain", "sharded", "http", "httpsharded"}

\* ghost state after the event -------------------------------------------------
NewInfo(e) == IF e.op = "write_info" THEN e.k ELSE info
NewReadable(e) == IF e.op = "set_readable" THEN e.b ELSE readable
NewKind(e) ==
  IF e.op = "open" THEN [kind EXCEPT ![e.h] = IF e.res \in HandleKinds THEN e.res ELSE "closed"]
  ELSE IF e.op = "close" THEN [kind EXCEPT ![e.h] = "closed"]
  ELSE kind
NewOpenedFor(e) ==
  IF e.op = "open" THEN [openedFor EXCEPT ![e.h] = Announces(info) \/ e.so = "true"] ELSE openedFor
NewPend(e) ==
  IF e.op = "store" /\ e.res = "ok" /\ kind[e.h] = "sharded" THEN [pend EXCEPT ![e.h] = e.v]
  ELSE IF e.op = "close" THEN [pend EXCEPT ![e.h] = 0]
  ELSE pend
NewLatest(e) ==
  IF e.op = "store" /\ e.res = "ok" /\ kind[e.h] = "plain" THEN e.v
  ELSE IF e.op = "close" /\ e.res = "ok" /\ pend[e.h] # 0 THEN pend[e.h]
  ELSE latest
NewEpoch(e) ==
  CASE e.op = "write_info" ->
         epoch /\ (e.k = info \/ (plain = 0 /\ shard = 0 /\ \A h \in Handles : pend[h] = 0))
    [] e.op = "store" -> epoch /\ openedFor[e.h] = Announces(info)
    \* a close that fails loses its pending chunk with an error: the premise ends
    [] e.op = "close" -> epoch /\ (e.res = "ok" \/ pend[e.h] = 0)
    [] OTHER -> epoch

FreshOk(e, want) ==
  \A i \in 1..Len(e.fresh) : e.fresh[i].st = "ok" /\ e.fresh[i].v = want
FreshNotStale(e, want) ==
  \A i \in 1..Len(e.fresh) : e.fresh[i].st # "ok" \/ e.fresh[i].v \in {0, want}

EventClause(e) ==
  LET ni == NewInfo(e)
      nr == NewReadable(e)
      np == NewPend(e)
      nl == NewLatest(e)
      ne == NewEpoch(e)
      quiet == \A h \in Handles : np[h] = 0
  IN IF e.op = "open_bad" /\ e.res # "urlerror" THEN "oracle:BadUrlAccepted"
     \* (with a forcing option the caller vouches for the dataset: only DRIFT then)
     ELSE IF e.op = "open" /\ e.so = "unset" /\ e.res \notin (HandleKinds \cup {"dataerror"})
          THEN "oracle:OpenRaisedOther"
     ELSE IF e.op = "open" /\ e.res = "dataerror" /\ (readable \/ info = "absent") /\ e.scheme # "http"
          THEN "oracle:OpenFailed"
     ELSE IF e.op = "store" /\ kind[e.h] = "plain" /\ e.res # "ok" THEN "oracle:StoreFailed"
     ELSE IF ne /\ Announces(ni) /\ e.obs.plain # 0 THEN "oracle:DispatchMisroutePlain"
     ELSE IF ne /\ ~Announces(ni) /\ e.obs.shard # 0 THEN "oracle:DispatchMisrouteShard"
     ELSE IF ne /\ nr /\ quiet /\ nl # 0 /\ ~FreshOk(e, nl) THEN "oracle:DispatchReadYourWrites"
     ELSE IF ne /\ quiet /\ ~FreshNotStale(e, nl) THEN "oracle:DispatchStaleRead"
     ELSE "ok"

\* design predictions (DRIFT only) -----------------------------------------------
ResClass(r) == IF r \in HandleKinds THEN r ELSE "error"
DesignOpen(e) == Route(e.scheme, e.so)
DesignStoreRes(e) ==
  IF kind[e.h] = "plain" THEN "ok"
  ELSE IF info = "sharded" /\ readable /\ pend[e.h] = 0 THEN "ok" ELSE "err"
DesignPlain(e) == IF e.op = "store" /\ kind[e.h] = "plain" THEN e.v ELSE plain
DesignShard(e) == IF e.op = "close" /\ pend[e.h] # 0 THEN pend[e.h] ELSE shard
DriftOf(e) ==
  IF e.op = "open" /\ ResClass(e.res) # DesignOpen(e) THEN "design:Route"
  ELSE IF e.op = "store" /\ kind[e.h] \in {"plain", "sharded"} /\ e.res # DesignStoreRes(e) THEN "design:StoreResult"
  ELSE IF e.op = "close" /\ e.res # "ok" THEN "design:CloseFailed"
  ELSE IF e.obs.plain # DesignPlain(e) THEN "design:PlainForm"
  ELSE IF e.obs.shard # DesignShard(e) THEN "design:ShardForm"
  ELSE "ok"

TInit == /\ tid \in 1..Len(Cases)
         /\ l = 1 /\ status = "run" /\ clause = "ok"
         /\ info = Cases[tid].init
         /\ readable = TRUE
         /\ plain = 0 /\ shard = 0
         /\ kind = [h \in Handles |-> "closed"]
         /\ pend = [h \in Handles |-> 0]
         /\ openedFor = [h \in Handles |-> FALSE]
         /\ latest = 0 /\ epoch = TRUE /\ nops = 0

Step ==
  /\ status = "run" /\ l <= Len(Cases[tid].events)
  /\ LET e == Ev
         cl == EventClause(e)
         dr == DriftOf(e)
     IN /\ IF cl = "ok"
           THEN /\ l' = l + 1 /\ UNCHANGED <<status, clause>>
                /\ (dr # "ok" => PrintT(<<"DRIFT", tid, dr, l>>))
           ELSE /\ status' = "bad" /\ clause' = cl /\ UNCHANGED l
        /\ info' = NewInfo(e)
        /\ readable' = NewReadable(e)
        /\ kind' = NewKind(e)
        /\ openedFor' = NewOpenedFor(e)
        /\ pend' = NewPend(e)
        /\ latest' = NewLatest(e)
        /\ epoch' = NewEpoch(e)
        /\ plain' = e.obs.plain            \* adopt what was observed
        /\ shard' = e.obs.shard
  /\ nops' = nops + 1
  /\ UNCHANGED tid

Finish ==
  /\ status = "run" /\ l > Len(Cases[tid].events)
  /\ status' = "ok" /\ clause' = "ok"
  /\ UNCHANGED <<vars, tid, l>>

TNext == Step \/ Finish
TSpec == TInit /\ [][TNext]_allvars

Emit == status # "run" => PrintT(<<"VERDICT", tid, status, clause, l>>)
=============================================================================
