SPECIFICATION Spec
CONSTANTS
  StopRule = "plusDelay"
  ChunkRule = "delayAware"
  ReduceRule = "once"
  KeyRule = "fallback"
  AssignRule = "strict"
  SeedSpace <- SeedsExtreme
  SizeSpace <- SizeTriplesQ
INVARIANT NoRaise
