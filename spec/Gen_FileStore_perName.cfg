SPECIFICATION GenSpec
CONSTANTS
  MimePolicy = "perName"
  MaxOps = 6
INVARIANT Emit
