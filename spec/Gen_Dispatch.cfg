SPECIFICATION GenSpec
CONSTANTS
  Fallback = "absentOnly"
  MaxOps = 9
INVARIANT Emit
