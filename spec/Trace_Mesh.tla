----------------------------- MODULE Trace_Mesh -----------------------------
(* Case specification for C17 (C->S, and the verdict half of S->C).  One    *)
(* case = one thing the REAL code was observed to do, re-encoded by         *)
(* harness/mesh_driver.py; TLC evaluates the oracle layer of Mesh.tla on it *)
(* and names the first failing clause.                                      *)
(*  mode "read"   b, res            read_precomputed_mesh on byte string b  *)
(*  mode "save"   vin, t, saved, b, res   save_mesh_as_precomputed, then    *)
(*                                  read_precomputed_mesh on the file       *)
(*  mode "affine" v, t, M, sc, tr, res  affine_transform_mesh with the      *)
(*                                  matrix sc.[M | tr], sc = <<num, den>>   *)
(*  mode "tool"   mesh-to-precomputed on a GIfTI file                       *)
(*  mode "vtk"    save_mesh_as_neuroglancer_vtk output lines                *)
(*  mode "links"  link-mesh-fragments: directory tree before / after        *)
(* Results carry st in {"ok", "mesh_error", "exc"} and the exception class. *)
EXTENDS Mesh, Json, IOUtils

Cases == ndJsonDeserialize(IOEnv.TRACE_FILE)

VARIABLE tid
vars == <<tid>>

Words(t) == [i \in 1..Len(t) |-> [d \in 1..3 |-> W(t[i][d])]]

\* ---- save -> file -> read ------------------------------------------------
SaveClause(c) ==
  IF c.saved.st # "ok" THEN "oracle:SaveRaised"
  ELSE LET lay == IF c.vin.fmt = "bits" THEN LayoutClause(c.b, c.vin.w, Words(c.t))
                  ELSE LayoutIntClause(c.b, c.vin.q, 0 - c.vin.ub, c.t)
       IN IF lay # "ok" THEN lay ELSE ReadClause(c.b, c.res)

\* ---- affine_transform_mesh --------------------------------------------------
AffineClause(c) ==
  IF c.res.st # "ok" THEN "oracle:TransformRaised"
  ELSE IF ~c.res.exact THEN "oracle:VerticesMoved"
  ELSE ScaledWindingClause(c.v, c.t, c.M, c.sc, c.tr, c.res.v, c.res.t)

\* ---- mesh-to-precomputed -------------------------------------------------------
\* every other key of the info file keeps its value (new keys are tolerated)
RestKept(info) ==
  \A i \in 1..Len(info.rest_before) :
     \E j \in 1..Len(info.rest_after) : info.rest_after[j] = info.rest_before[i]
Identity == <<<<1, 0, 0>>, <<0, 1, 0>>, <<0, 0, 1>>>>
ToolClause(c) ==
  IF c.expect = "mismatch"
  THEN (IF c.rc # 0 /\ c.newfiles = << >> /\ c.info.mesh_after = c.info.mesh_before
           /\ RestKept(c.info)
        THEN "ok" ELSE "oracle:MeshDirMismatch")
  ELSE IF c.rc # 0 \/ c.exc # "" THEN "oracle:ToolFailed"
  ELSE LET dir == IF c.info.mesh_before # "" THEN c.info.mesh_before
                  ELSE IF c.args.meshdir # "" THEN c.args.meshdir ELSE "mesh"
           M == IF c.hasxf THEN c.M ELSE Identity
           tr == IF c.hasxf THEN c.tr ELSE <<0, 0, 0>>
           o == ReadOutcome(c.b)
       IN IF c.info.mesh_after # dir \/ ~RestKept(c.info)
          THEN "oracle:InfoMeshKey"
          ELSE IF c.newfiles # <<dir \o "/" \o c.args.name>> THEN "oracle:MeshFileLocation"
          ELSE IF o.st # "ok" THEN "oracle:MeshFileReadable"
          ELSE IF Len(o.v) # Len(c.v) \/ Len(o.t) # Len(c.t) THEN "oracle:MeshFileCounts"
          ELSE IF \E j \in 1..Len(c.v), d \in 1..3 :
                    ~IsF32(o.v[j][d], NmMantissa(Apply(M, tr, c.v[j])[d]), NmShift(c.ub))
          THEN "oracle:Scaling"
          ELSE LET t2 == [i \in 1..Len(o.t) |-> [d \in 1..3 |-> o.t[i][d][1]]]
                   v2 == [j \in 1..Len(c.v) |-> Apply(M, tr, c.v[j])]
               IN WindingClause(c.v, c.t, M, tr, v2, t2)

\* ---- VTK ---------------------------------------------------------------------
VtkCaseClause(c) ==
  IF c.saved.st # "ok" THEN "oracle:VtkRaised"
  ELSE VtkClause(c.lines, c.raws, c.iv, c.v, c.t, c.attrs)

\* ---- fragment links -----------------------------------------------------------
LinksCaseClause(c) ==
  IF Conflict(c.rows, c.suffix, c.before)
  THEN LinksConflictClause(c.rows, c.suffix, c.before, c.after, c.rc = 0 /\ c.exc = "")
  ELSE IF c.rc # 0 \/ c.exc # "" THEN "oracle:LinksFailed"
  ELSE LinksClause(c.rows, c.suffix, c.before, c.after)

Clause(c) ==
  CASE c.mode = "read"   -> ReadClause(c.b, c.res)
    [] c.mode = "save"   -> SaveClause(c)
    [] c.mode = "affine" -> AffineClause(c)
    [] c.mode = "tool"   -> ToolClause(c)
    [] c.mode = "vtk"    -> VtkCaseClause(c)
    [] c.mode = "links"  -> LinksCaseClause(c)
    [] OTHER             -> "machinery:UnknownMode"

Init == tid \in 1..Len(Cases)
Next == UNCHANGED tid
Spec == Init /\ [][Next]_vars

\* the 5th field carries, for cases that hold a mesh file, which exit of the
\* format oracle the bytes take (coverage accounting and finding signatures)
ExitNames == <<"ShortHeader", "ShortVertices", "TriangleLength", "IndexOutOfRange", "Ok">>
\* ... and for affine cases whether the signed-volume clause applied (1) or not (0)
ExitIndex(c) ==
  IF c.mode \in {"read", "save"}
  THEN CHOOSE k \in 1..5 : ExitNames[k] = ReadOutcome(c.b).exit
  ELSE IF c.mode = "affine"
  THEN (IF DetM(c.M) # 0 /\ Closed(c.t) /\ CentredVolume6(c.v, c.t) # 0 THEN 1 ELSE 0)
  ELSE 0

Emit == LET cl == Clause(Cases[tid]) IN
        PrintT(<<"VERDICT", tid, IF cl = "ok" THEN "ok" ELSE "bad", cl, ExitIndex(Cases[tid])>>)
=============================================================================
