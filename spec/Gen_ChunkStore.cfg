SPECIFICATION GenSpec
CONSTANTS
  ValidatorBounds = "checked"
  MaxOps = 7
  Infos <- GenInfos
INVARIANT Emit
