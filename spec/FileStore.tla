----------------------------- MODULE FileStore -----------------------------
(* The plain file accessor (file_accessor.FileAccessor) as a state machine. *)
(*                                                                          *)
(* ORACLE layer (from the property statement and docs/serving-data.rst):    *)
(*   latest / latestC are ghost variables: the bytes most recently stored   *)
(*   under a file name / chunk position.                                    *)
(*   LastWriteWins   fetch returns latest; exists <=> something was stored  *)
(*   NoOverwrite     a store without overwrite permission on an existing    *)
(*                   name fails and changes nothing                         *)
(*   ChunkPath       chunks land at key/x-X_y-Y_z-Z (flat) or               *)
(*                   key/x-X/y-Y/z-Z (deep), + ".gz" when compression       *)
(*                   applies, and a .gz file is a valid gzip stream of the  *)
(*                   stored bytes                                           *)
(*   CrossConfig     a dataset written under one configuration is read      *)
(*                   correctly by an accessor opened with any other         *)
(* DESIGN layer: the code's path rules and probe order (plain before .gz;   *)
(* flat pattern probed first, deep pattern probed last and winning).        *)
(*                                                                          *)
(* Deviation switch MimePolicy: "perName" - every name is always stored     *)
(* with the same MIME type (the normal use: info is JSON, chunks have the   *)
(* encoder's type); "perCall" - the MIME type may change between stores of  *)
(* the same name. The code keeps the plain and the .gz variant of a name    *)
(* side by side, so under perCall LastWriteWins and NoOverwrite fail.       *)
EXTENDS Naturals, Sequences, FiniteSets, TLC

CONSTANTS MimePolicy, MaxOps

Names  == {"a", "d/b.x", "d/b.y"}     \* two names that differ only in their last extension
Key    == "10um_iso-2.5"      \* a scale key with an underscore, a dash and a dot (all legal)
Chunks == {<<0, 2, 0, 2, 0, 1>>, <<2, 3, 0, 2, 0, 1>>}
Data   == {0, 1, 2}                  \* abstract payloads; 0 is the empty byte string
Mimes  == {"application/octet-stream", "application/json", "image/jpeg"}
NoCompress == {"application/json", "image/jpeg", "image/png"}
Cfgs   == [flat : BOOLEAN, gzip : BOOLEAN]
Absent == 9                         \* "nothing stored yet"

VARIABLES cfg, disk, latest, latestC, nops, noOwBroken
vars == <<cfg, disk, latest, latestC, nops, noOwBroken>>

\* ---- oracle: documented chunk path ---------------------------------------
N2S(n) == ToString(n)
FlatName(c) == N2S(c[1]) \o "-" \o N2S(c[2]) \o "_" \o N2S(c[3]) \o "-" \o N2S(c[4])
               \o "_" \o N2S(c[5]) \o "-" \o N2S(c[6])
DeepName(c) == N2S(c[1]) \o "-" \o N2S(c[2]) \o "/" \o N2S(c[3]) \o "-" \o N2S(c[4])
               \o "/" \o N2S(c[5]) \o "-" \o N2S(c[6])
ChunkPath(key, c, flat) == key \o "/" \o (IF flat THEN FlatName(c) ELSE DeepName(c))
GzApplies(g, mime) == g /\ mime \notin NoCompress
WithGz(p, gz) == IF gz THEN p \o ".gz" ELSE p

\* ---- design: probes of fetch_file / file_exists / fetch_chunk -------------
Has(d, p) == p \in DOMAIN d
DesignFetchFile(d, name) ==
  IF Has(d, name) THEN [st |-> "ok", data |-> d[name].data]
  ELSE IF Has(d, name \o ".gz") THEN [st |-> "ok", data |-> d[name \o ".gz"].data]
  ELSE [st |-> "err"]
DesignExists(d, name) == Has(d, name) \/ Has(d, name \o ".gz")
\* flat probed first, deep probed last: the last hit wins; plain before .gz
ProbeOne(d, p) == IF Has(d, p) THEN p ELSE IF Has(d, p \o ".gz") THEN p \o ".gz" ELSE ""
DesignFetchChunk(d, key, c) ==
  LET pf == ProbeOne(d, ChunkPath(key, c, TRUE))
      pd == ProbeOne(d, ChunkPath(key, c, FALSE))
      hit == IF pd # "" THEN pd ELSE pf
  IN IF hit = "" THEN [st |-> "err"] ELSE [st |-> "ok", data |-> d[hit].data]

Put(d, p, v, gz) == [q \in DOMAIN d \cup {p} |-> IF q = p THEN [data |-> v, gz |-> gz] ELSE d[q]]

\* ---- mime policy -------------------------------------------------------------
MimeAllowedName(n, mime) ==
  \/ MimePolicy = "perCall"
  \/ MimePolicy = "perName" /\
       mime = (IF n = "a" THEN "application/json" ELSE "application/octet-stream")
MimeAllowedChunk(c, mime) ==
  \/ MimePolicy = "perCall"
  \/ MimePolicy = "perName" /\
       mime = (IF c = <<0, 2, 0, 2, 0, 1>> THEN "application/octet-stream" ELSE "image/jpeg")

Init == /\ cfg \in Cfgs
        /\ disk = << >>
        /\ latest = [n \in Names |-> Absent]
        /\ latestC = [c \in Chunks |-> Absent]
        /\ nops = 0
        /\ noOwBroken = FALSE

StoreFile(name, v, mime, ow) ==
  LET p == WithGz(name, GzApplies(cfg.gzip, mime))
      refused == ~ow /\ Has(disk, p)                 \* open(..., "xb")
      existed == latest[name] # Absent               \* oracle's notion of "exists"
  IN /\ nops < MaxOps
     /\ MimeAllowedName(name, mime)
     /\ nops' = nops + 1
     /\ IF refused
        THEN UNCHANGED <<disk, latest>> /\ UNCHANGED noOwBroken
        ELSE /\ disk' = Put(disk, p, v, GzApplies(cfg.gzip, mime))
             /\ latest' = [latest EXCEPT ![name] = v]
             /\ noOwBroken' = (noOwBroken \/ (~ow /\ existed))
     /\ UNCHANGED <<cfg, latestC>>

StoreChunk(c, v, mime, ow) ==
  LET p == WithGz(ChunkPath(Key, c, cfg.flat), GzApplies(cfg.gzip, mime))
      refused == ~ow /\ Has(disk, p)
      existed == latestC[c] # Absent
  IN /\ nops < MaxOps
     /\ MimeAllowedChunk(c, mime)
     /\ nops' = nops + 1
     /\ IF refused
        THEN UNCHANGED <<disk, latestC>> /\ UNCHANGED noOwBroken
        ELSE /\ disk' = Put(disk, p, v, GzApplies(cfg.gzip, mime))
             /\ latestC' = [latestC EXCEPT ![c] = v]
             /\ noOwBroken' = (noOwBroken \/ (~ow /\ existed))
     /\ UNCHANGED <<cfg, latest>>

Next == \/ \E n \in Names, v \in Data, m \in Mimes, ow \in BOOLEAN : StoreFile(n, v, m, ow)
        \/ \E c \in Chunks, v \in Data, m \in Mimes, ow \in BOOLEAN : StoreChunk(c, v, m, ow)
Spec == Init /\ [][Next]_vars

\* ---- properties: Design => Oracle --------------------------------------------
LastWriteWins ==
  /\ \A n \in Names :
       IF latest[n] = Absent THEN DesignFetchFile(disk, n).st = "err" /\ ~DesignExists(disk, n)
       ELSE DesignFetchFile(disk, n) = [st |-> "ok", data |-> latest[n]] /\ DesignExists(disk, n)
  /\ \A c \in Chunks :
       IF latestC[c] = Absent THEN DesignFetchChunk(disk, Key, c).st = "err"
       ELSE DesignFetchChunk(disk, Key, c) = [st |-> "ok", data |-> latestC[c]]
NoOverwrite == ~noOwBroken
\* every file on disk sits at a documented path of the writer's configuration
PathsDocumented ==
  \A p \in DOMAIN disk :
     \/ \E n \in Names, gz \in BOOLEAN : p = WithGz(n, gz) /\ disk[p].gz = gz
     \/ \E c \in Chunks, gz \in BOOLEAN :
          p = WithGz(ChunkPath(Key, c, cfg.flat), gz) /\ disk[p].gz = gz /\ (gz => cfg.gzip)
\* the fetch probes do not depend on the reader's configuration at all, so
\* CrossConfig is LastWriteWins for chunks (stated separately for the trace spec)
=============================================================================
