SPECIFICATION Spec
CONSTANTS
  ChannelSlice = "to_end"
  CfgSpace <- MCSpaceFull
INVARIANT EncodingWellFormed
INVARIANT EncodingValid
INVARIANT EncodingDecodes
INVARIANT EncodingAccepted
INVARIANT ParseTotal
INVARIANT ParseAgrees
INVARIANT ParseComplete
INVARIANT MacroEqualsSteps
INVARIANT UnmutatedAccepted
