SPECIFICATION GenSpec
CONSTANTS
  Fallback = "absentOnly"
  MaxOps = 14
INVARIANT Emit
