------------------------------- MODULE Mesh -------------------------------
(* C17 - mesh files follow the formats Neuroglancer reads and survive a     *)
(* round trip.                                                              *)
(*                                                                          *)
(* ORACLE LAYER (sections 1-6): written only from the property statement,   *)
(* the Neuroglancer precomputed "legacy single-resolution mesh" format text *)
(* (fragment file = uint32le num_vertices, 3*num_vertices float32le in      *)
(* [x0,y0,z0,x1,...] order, then uint32le triples of vertex indices), the   *)
(* grammar of Neuroglancer's VTK reader (datasource/vtk/parse.ts at the     *)
(* revision quoted in mesh.py) and the documented file naming of the        *)
(* label -> fragments JSON files ("<mesh dir>/<label>:0").                  *)
(* DESIGN LAYER (section 7): the reader as a four-step automaton and the    *)
(* writer, with deviation switches naming what the code is known to do.     *)
(*                                                                          *)
(* Representation (harness/mesh_driver.py only re-encodes):                 *)
(*  - a byte string is [len |-> L, hs |-> 16-bit little-endian halves of    *)
(*    the bytes, zero padded to even length];  a uint32 / float32 word is   *)
(*    <<lo16, hi16>> (floats are compared by bit pattern);                  *)
(*  - integer-valued geometry travels additionally as small integers in a   *)
(*    per-case unit 2^-ub (fixed point), so that affine maps, signed        *)
(*    volumes and the mm -> nm factor are decided in exact arithmetic.      *)
(*                                                                          *)
(* INTERPRETATIONS chosen to avoid false alarms                             *)
(*  I1 "truncated data" = any input that ends before the end of a field     *)
(*     announced by the format: fewer than 4 bytes, fewer than 12n bytes of *)
(*     vertices, a trailing partial triangle (rest not a multiple of 12).   *)
(*     "mesh-data error" = InvalidMeshDataError, the only mesh-data error   *)
(*     class the module exports.  Any other exception is ForbiddenException.*)
(*  I2 winding: each output triangle must be an EVEN permutation of the     *)
(*     input triangle when det > 0 and an ODD one when det < 0 (any odd     *)
(*     permutation, not only full reversal); for det = 0 only "no crash,    *)
(*     vertices moved" is demanded.  The signed-volume clause is evaluated  *)
(*     only for closed, consistently oriented meshes with non-zero volume.  *)
(*     "mirrors space" = negative determinant of the linear part, whatever  *)
(*     its magnitude: a uniform positive unit change does not alter it      *)
(*     (ScaledWindingClause).                                               *)
(*  I3 a zero coordinate may carry either sign bit.                         *)
(*  I4 stored files may be gzip-compressed under "<name>.gz" (the package's *)
(*     documented on-disk layout, served transparently); the oracle sees    *)
(*     the decompressed bytes and the name without ".gz".                   *)
(*  I5 VTK: blank lines between sections and zero SCALARS after POINT_DATA  *)
(*     are accepted (Neuroglancer accepts them); array entries must be      *)
(*     decimal numbers (the harness passes finite values only).             *)
(*     oracle:VtkMesh (the file parsed by the grammar yields the exported   *)
(*     mesh and attribute names) is evaluated only on integer vertices.     *)
(*  I6 fragment links: only files that did not exist before the tool ran    *)
(*     are link files; earlier files must be left untouched.                *)
(*  I7 link tables that repeat a label, or whose link file names collide    *)
(*     with files already present: refusing is accepted; success must list  *)
(*     every fragment of every row of the label (section 6, CONFLICTS).     *)
EXTENDS Integers, Sequences, SequencesExt, FiniteSets, Functions, TLC

(***************************************************************************)
(* 1. Bytes, words, float32 patterns of small dyadic numbers               *)
(***************************************************************************)
H16 == 65536
\* k-th (0-based) uint32le word of b; meaningful when 4 * (k + 1) <= b.len
WordAt(b, k) == <<b.hs[2 * k + 1], b.hs[2 * k + 2]>>
IsSmallWord(w) == w[2] = 0                 \* value < 65536
W(n) == <<n % H16, n \div H16>>            \* for 0 <= n < 2^31

Abs(x) == IF x < 0 THEN 0 - x ELSE x
Sign(x) == IF x < 0 THEN 0 - 1 ELSE IF x > 0 THEN 1 ELSE 0
Log2(q) == CHOOSE e \in 0..23 : 2^e <= q /\ q < 2^(e + 1)      \* 1 <= q < 2^24
FitsMantissa(q) == Abs(q) < 16777216
\* bit pattern of the float32 number q * 2^s (exactly representable, normal)
F32Scaled(q, s) ==
  IF q = 0 THEN <<0, 0>>
  ELSE LET a == Abs(q)
           e == Log2(a)
           mant == (a - 2^e) * 2^(23 - e)
           ex == e + s + 127
       IN <<mant % H16, (IF q < 0 THEN 32768 ELSE 0) + ex * 128 + mant \div H16>>
\* word w is the float32 q * 2^s   (I3: zero with either sign)
IsF32(w, q, s) == IF q = 0 THEN w \in {<<0, 0>>, <<0, 32768>>}
                  ELSE FitsMantissa(q) /\ w = F32Scaled(q, s)

FirstBad(seq) ==
  IF \E i \in 1..Len(seq) : seq[i] # "ok"
  THEN seq[CHOOSE i \in 1..Len(seq) : seq[i] # "ok" /\ \A j \in 1..(i - 1) : seq[j] = "ok"]
  ELSE "ok"

(***************************************************************************)
(* 2. Precomputed mesh format: what a format-following reader returns      *)
(***************************************************************************)
ErrOut(e) == [st |-> "error", exit |-> e, v |-> << >>, t |-> << >>]
Exits == {"ShortHeader", "ShortVertices", "TriangleLength", "IndexOutOfRange", "Ok"}

VertexWords(b, n) ==
  [j \in 1..n |-> [d \in 1..3 |-> WordAt(b, 1 + 3 * (j - 1) + (d - 1))]]
TriangleWords(b, n, m) ==
  [i \in 1..m |-> [d \in 1..3 |-> WordAt(b, 1 + 3 * n + 3 * (i - 1) + (d - 1))]]
IndexExists(w, n) == IsSmallWord(w) /\ w[1] < n           \* n < 65536 here

ReadOutcome(b) ==
  IF b.len < 4 THEN ErrOut("ShortHeader")
  ELSE LET nw == WordAt(b, 0) IN
    \* files handed to TLC are < 2^16 bytes, so a count >= 2^16 is short
    IF ~IsSmallWord(nw) \/ 4 + 12 * nw[1] > b.len THEN ErrOut("ShortVertices")
    ELSE LET n == nw[1]
             rem == b.len - 4 - 12 * n
         IN IF rem % 12 # 0 THEN ErrOut("TriangleLength")
            ELSE LET m == rem \div 12
                     t == TriangleWords(b, n, m)
                 IN IF \E i \in 1..m, d \in 1..3 : ~IndexExists(t[i][d], n)
                    THEN ErrOut("IndexOutOfRange")
                    ELSE [st |-> "ok", exit |-> "Ok", v |-> VertexWords(b, n), t |-> t]

\* field-by-field layout of a file that stores vertices v (word triples) and
\* triangles t (word triples)
LayoutClause(b, v, t) ==
  LET n == Len(v)
      m == Len(t)
  IN IF b.len # 4 + 12 * n + 12 * m THEN "oracle:LayoutLength"
     ELSE IF WordAt(b, 0) # W(n) THEN "oracle:LayoutCount"
     ELSE IF \E j \in 1..n, d \in 1..3 : WordAt(b, 1 + 3 * (j - 1) + (d - 1)) # v[j][d]
          THEN "oracle:LayoutVertices"
     ELSE IF \E i \in 1..m, d \in 1..3 : WordAt(b, 1 + 3 * n + 3 * (i - 1) + (d - 1)) # t[i][d]
          THEN "oracle:LayoutTriangles"
     ELSE "ok"

\* the same with vertices given as integers q in unit 2^s
LayoutIntClause(b, q, s, t) ==
  LET n == Len(q)
      m == Len(t)
  IN IF b.len # 4 + 12 * n + 12 * m THEN "oracle:LayoutLength"
     ELSE IF WordAt(b, 0) # W(n) THEN "oracle:LayoutCount"
     ELSE IF \E j \in 1..n, d \in 1..3 :
                ~IsF32(WordAt(b, 1 + 3 * (j - 1) + (d - 1)), q[j][d], s)
          THEN "oracle:LayoutVertices"
     ELSE IF \E i \in 1..m, d \in 1..3 :
                WordAt(b, 1 + 3 * n + 3 * (i - 1) + (d - 1)) # W(t[i][d])
          THEN "oracle:LayoutTriangles"
     ELSE "ok"

\* judging what a reader did on input b.  res = [st, cls, v, t] with
\* st in {"ok", "mesh_error", "exc"}
ReadClause(b, res) ==
  LET o == ReadOutcome(b) IN
  IF res.st = "exc" THEN "oracle:ForbiddenException"
  ELSE IF o.st = "error" /\ res.st = "ok" THEN "oracle:ReaderAcceptsInvalid"
  ELSE IF o.st = "ok" /\ res.st = "mesh_error" THEN "oracle:ReaderRejectsValid"
  ELSE IF o.st = "ok" /\ (res.v # o.v \/ res.t # o.t) THEN "oracle:RoundTrip"
  ELSE "ok"

(***************************************************************************)
(* 3. Affine maps, signed volume, winding                                  *)
(***************************************************************************)
Dot(r, p) == r[1] * p[1] + r[2] * p[2] + r[3] * p[3]
Apply(M, tr, p) == <<Dot(M[1], p) + tr[1], Dot(M[2], p) + tr[2], Dot(M[3], p) + tr[3]>>
Minus(p, q) == <<p[1] - q[1], p[2] - q[2], p[3] - q[3]>>
Det3(a, b, c) ==   a[1] * (b[2] * c[3] - b[3] * c[2])
                 - a[2] * (b[1] * c[3] - b[3] * c[1])
                 + a[3] * (b[1] * c[2] - b[2] * c[1])
DetM(M) == Det3(M[1], M[2], M[3])

\* six times the signed volume enclosed by (v, t), t holding 0-based indices
SignedVolume6(v, t) ==
  FoldLeft(LAMBDA acc, tri : acc + Det3(v[tri[1] + 1], v[tri[2] + 1], v[tri[3] + 1]), 0, t)
\* the same measured from the first vertex: equal for closed meshes, keeps
\* the numbers small
CentredVolume6(v, t) ==
  IF v = << >> THEN 0
  ELSE SignedVolume6([j \in 1..Len(v) |-> Minus(v[j], v[1])], t)

DirectedEdges(t) == {<<t[i][d], t[i][(d % 3) + 1]>> : i \in 1..Len(t), d \in 1..3}
\* closed and consistently oriented: each directed edge once, its reverse once
Closed(t) == LET E == DirectedEdges(t) IN
             /\ t # << >>
             /\ Cardinality(E) = 3 * Len(t)
             /\ \A e \in E : <<e[2], e[1]>> \in E

EvenPerm(s, u) == u = s \/ u = <<s[2], s[3], s[1]>> \/ u = <<s[3], s[1], s[2]>>
OddPerm(s, u)  == u = <<s[3], s[2], s[1]>> \/ u = <<s[1], s[3], s[2]>> \/ u = <<s[2], s[1], s[3]>>

\* (v, t) --M, tr--> (v2, t2)
WindingClause(v, t, M, tr, v2, t2) ==
  LET dm == DetM(M) IN
  IF Len(v2) # Len(v) \/ \E j \in 1..Len(v) : v2[j] # Apply(M, tr, v[j])
  THEN "oracle:VerticesMoved"
  ELSE IF Len(t2) # Len(t) THEN "oracle:TriangleCount"
  ELSE IF \E i \in 1..Len(t) :
             \/ dm > 0 /\ ~EvenPerm(t[i], t2[i])
             \/ dm < 0 /\ ~OddPerm(t[i], t2[i])
             \/ dm = 0 /\ ~(EvenPerm(t[i], t2[i]) \/ OddPerm(t[i], t2[i]))
       THEN "oracle:WindingRule"
  ELSE IF /\ dm # 0
          /\ Closed(t)
          /\ CentredVolume6(v, t) # 0
          /\ Sign(CentredVolume6(v2, t2)) # Sign(CentredVolume6(v, t))
       THEN "oracle:OrientationKept"
  ELSE "ok"

\* The same for the map p |-> sc.(M.p + tr) with a rational unit change
\* sc = <<num, den>> (10^-3, 10^-6, 10^3, 10^6 ...): v2 is given in the result
\* unit, so the vertex rule is unchanged, and det(sc.M) = sc^3.det(M): for
\* sc > 0 the transform mirrors space exactly when det(M) < 0, HOWEVER SMALL
\* |sc^3.det(M)| is (a mirror combined with a micrometre -> millimetre change
\* has determinant -10^-9 and is as invertible as the mirror itself).  The sign
\* is decided on the integer matrix; the scale never enters a product, so
\* nothing leaves TLC's 32-bit integers.
ScaleSign(sc) == Sign(sc[1]) * Sign(sc[2])
ScaledWindingClause(v, t, M, sc, tr, v2, t2) ==
  IF ScaleSign(sc) <= 0 THEN "machinery:BadScale"
  ELSE WindingClause(v, t, M, tr, v2, t2)

(***************************************************************************)
(* 4. Mesh conversion: mm -> nm                                            *)
(***************************************************************************)
\* 10^6 = 15625 * 2^6 ; a coordinate of q units of 2^-ub millimetres is
\* q * 15625 * 2^(6 - ub) nanometres
NmMantissa(q) == q * 15625
NmShift(ub) == 6 - ub
ScaledVertices(v) == [j \in 1..Len(v) |-> [d \in 1..3 |-> NmMantissa(v[j][d])]]

(***************************************************************************)
(* 5. VTK: line-level grammar automaton of the subset Neuroglancer parses  *)
(***************************************************************************)
Digits == {"0", "1", "2", "3", "4", "5", "6", "7", "8", "9"}
Ch(s, i) == SubSeq(s, i, i)
IsUInt(s) == Len(s) >= 1 /\ Len(s) <= 9 /\ \A i \in 1..Len(s) : Ch(s, i) \in Digits
DigitVal(c) == CHOOSE d \in 0..9 : SubSeq("0123456789", d + 1, d + 1) = c
UIntVal(s) == FoldLeft(LAMBDA acc, i : 10 * acc + DigitVal(Ch(s, i)), 0, [i \in 1..Len(s) |-> i])
IsInt(s) == IF Len(s) >= 2 /\ Ch(s, 1) = "-" THEN IsUInt(SubSeq(s, 2, Len(s))) ELSE IsUInt(s)
IntVal(s) == IF Ch(s, 1) = "-" THEN 0 - UIntVal(SubSeq(s, 2, Len(s))) ELSE UIntVal(s)

\* decimal number: [+-] digits [. digits] [e [+-] digits], at least one digit
\* in the mantissa.  DFA over the characters.
NumStep(q, c) ==
  CASE q = "start" -> (IF c \in {"+", "-"} THEN "sign" ELSE IF c \in Digits THEN "int"
                       ELSE IF c = "." THEN "dot0" ELSE "bad")
    [] q = "sign"  -> (IF c \in Digits THEN "int" ELSE IF c = "." THEN "dot0" ELSE "bad")
    [] q = "int"   -> (IF c \in Digits THEN "int" ELSE IF c = "." THEN "frac"
                       ELSE IF c \in {"e", "E"} THEN "exp0" ELSE "bad")
    [] q = "dot0"  -> (IF c \in Digits THEN "frac" ELSE "bad")
    [] q = "frac"  -> (IF c \in Digits THEN "frac" ELSE IF c \in {"e", "E"} THEN "exp0" ELSE "bad")
    [] q = "exp0"  -> (IF c \in {"+", "-"} THEN "exps" ELSE IF c \in Digits THEN "exp" ELSE "bad")
    [] q = "exps"  -> (IF c \in Digits THEN "exp" ELSE "bad")
    [] q = "exp"   -> (IF c \in Digits THEN "exp" ELSE "bad")
    [] OTHER       -> "bad"
IsNumber(s) ==
  FoldLeft(LAMBDA q, i : NumStep(q, Ch(s, i)), "start", [i \in 1..Len(s) |-> i])
    \in {"int", "frac", "exp"}

\* version token x.y
IsVersion(s) ==
  \E p \in 2..(Len(s) - 1) : /\ Ch(s, p) = "."
                             /\ IsUInt(SubSeq(s, 1, p - 1))
                             /\ IsUInt(SubSeq(s, p + 1, Len(s)))

VtkInit == [st |-> "Header", left |-> 0, k |-> 0, nv |-> 0, np |-> 0,
            seenPts |-> FALSE, seenPolys |-> FALSE,
            pts |-> << >>, tris |-> << >>, attrs |-> << >>]
VtkFail(s) == [s EXCEPT !.st = "FAIL:" \o s.st]
VtkFailed(s) == Len(s.st) > 5 /\ SubSeq(s.st, 1, 5) = "FAIL:"

\* one line = its sequence of tokens (split at blanks and tabs); `raw` is the
\* untokenised line (used for the title length only)
VtkStep(s, line, raw) ==
  IF VtkFailed(s) THEN s
  ELSE CASE s.st = "Header" ->
         (IF Len(line) = 5 /\ SubSeq(line, 1, 4) = <<"#", "vtk", "DataFile", "Version">>
             /\ IsVersion(line[5])
          THEN [s EXCEPT !.st = "Title"] ELSE VtkFail(s))
    [] s.st = "Title" ->
         (IF Len(raw) <= 255 THEN [s EXCEPT !.st = "Format"] ELSE VtkFail(s))
    [] s.st = "Format" ->
         (IF line = <<"ASCII">> THEN [s EXCEPT !.st = "Dataset"] ELSE VtkFail(s))
    [] s.st = "Dataset" ->
         (IF line = <<"DATASET", "POLYDATA">> THEN [s EXCEPT !.st = "Section"] ELSE VtkFail(s))
    [] s.st = "Section" ->
         (IF line = << >> THEN s
          ELSE IF Len(line) = 3 /\ line[1] = "POINTS" /\ IsUInt(line[2]) /\ line[3] = "float"
                  /\ ~s.seenPts
          THEN LET n == UIntVal(line[2]) IN
               [s EXCEPT !.seenPts = TRUE, !.nv = n, !.left = n,
                         !.st = IF n = 0 THEN "Section" ELSE "Points"]
          ELSE IF Len(line) = 3 /\ line[1] = "POLYGONS" /\ IsUInt(line[2]) /\ IsUInt(line[3])
                  /\ ~s.seenPolys /\ UIntVal(line[3]) = 4 * UIntVal(line[2])
          THEN LET m == UIntVal(line[2]) IN
               [s EXCEPT !.seenPolys = TRUE, !.np = m, !.left = m,
                         !.st = IF m = 0 THEN "Section" ELSE "Polygons"]
          ELSE IF Len(line) = 2 /\ line[1] = "POINT_DATA" /\ IsUInt(line[2]) /\ s.seenPts
                  /\ UIntVal(line[2]) = s.nv
          THEN [s EXCEPT !.st = "PointData"]
          ELSE VtkFail(s))
    [] s.st = "Points" ->
         (IF Len(line) = 3 /\ \A i \in 1..3 : IsNumber(line[i])
          THEN [s EXCEPT !.pts = Append(@, line), !.left = @ - 1,
                         !.st = IF s.left = 1 THEN "Section" ELSE "Points"]
          ELSE VtkFail(s))
    [] s.st = "Polygons" ->
         (IF Len(line) = 4 /\ line[1] = "3" /\ \A i \in 2..4 : IsUInt(line[i])
          THEN [s EXCEPT !.tris = Append(@, <<UIntVal(line[2]), UIntVal(line[3]), UIntVal(line[4])>>),
                         !.left = @ - 1,
                         !.st = IF s.left = 1 THEN "Section" ELSE "Polygons"]
          ELSE VtkFail(s))
    [] s.st = "PointData" ->
         (IF line = << >> THEN s
          ELSE IF Len(line) \in {3, 4} /\ line[1] = "SCALARS" /\ line[3] = "float"
                  /\ (Len(line) = 4 => (IsUInt(line[4]) /\ UIntVal(line[4]) >= 1))
          THEN LET k == IF Len(line) = 4 THEN UIntVal(line[4]) ELSE 1 IN
               [s EXCEPT !.st = "LookupTable", !.k = k, !.attrs = Append(@, <<line[2], k>>)]
          ELSE VtkFail(s))
    [] s.st = "LookupTable" ->
         (IF line = <<"LOOKUP_TABLE", "default">>
          THEN [s EXCEPT !.left = s.nv, !.st = IF s.nv = 0 THEN "PointData" ELSE "ScalarValues"]
          ELSE VtkFail(s))
    [] s.st = "ScalarValues" ->
         (IF Len(line) = s.k /\ \A i \in 1..Len(line) : IsNumber(line[i])
          THEN [s EXCEPT !.left = @ - 1, !.st = IF s.left = 1 THEN "PointData" ELSE "ScalarValues"]
          ELSE VtkFail(s))
    [] OTHER -> VtkFail(s)

VtkEnd(s) ==
  IF VtkFailed(s) THEN s
  ELSE IF /\ s.st \in {"Section", "PointData"}
          /\ s.seenPts /\ s.seenPolys
          /\ \A i \in 1..Len(s.tris), d \in 1..3 : s.tris[i][d] < s.nv
       THEN [s EXCEPT !.st = "Accept"]
       ELSE [s EXCEPT !.st = "FAIL:End." \o s.st]

VtkRun(lines, raws) ==
  VtkEnd(FoldLeft(LAMBDA s, i : VtkStep(s, lines[i], raws[i]), VtkInit,
                  [i \in 1..Len(lines) |-> i]))
VtkAccepts(lines, raws) == VtkRun(lines, raws).st = "Accept"

\* the exported mesh is the one in the file (integer vertices only, I5)
VtkMeshOk(s, v, t, attrs) ==
  /\ Len(s.pts) = Len(v)
  /\ \A j \in 1..Len(v), d \in 1..3 : IsInt(s.pts[j][d]) /\ IntVal(s.pts[j][d]) = v[j][d]
  /\ s.tris = t
  /\ s.attrs = attrs

VtkClause(lines, raws, iv, v, t, attrs) ==
  LET s == VtkRun(lines, raws) IN
  IF s.st # "Accept" THEN "oracle:VtkGrammar." \o SubSeq(s.st, 6, Len(s.st))
  ELSE IF iv /\ ~VtkMeshOk(s, v, t, attrs) THEN "oracle:VtkMesh"
  ELSE "ok"

(***************************************************************************)
(* 6. Fragment links                                                       *)
(***************************************************************************)
\* rows   : <<label (canonical decimal string), <<fragment names>>>>
\* before : <<path, hash>> of the files under the mesh directory before
\* after  : [path, hash, st, frags] after (".gz" removed from path and content
\*          decompressed, I4); st = "json" when the file is a JSON object
\*          whose "fragments" member is a list of strings (frags)
LinkName(label, suffix) == label \o suffix
LinksClause(rows, suffix, before, after) ==
  LET old == {before[i][1] : i \in 1..Len(before)}
      new == {i \in 1..Len(after) : after[i].path \notin old}
      want == {LinkName(rows[r][1], suffix) : r \in 1..Len(rows)}
  IN IF \E i \in 1..Len(before) :
          ~\E j \in 1..Len(after) : after[j].path = before[i][1] /\ after[j].hash = before[i][2]
     THEN "oracle:LinksExact.untouched"
     ELSE IF {after[i].path : i \in new} # want \/ Cardinality(new) # Cardinality(want)
     THEN "oracle:LinksExact.names"
     ELSE IF \E i \in new : \E r \in 1..Len(rows) :
               /\ after[i].path = LinkName(rows[r][1], suffix)
               /\ ~(after[i].st = "json" /\ after[i].frags = rows[r][2])
     THEN "oracle:LinksExact.content"
     ELSE "ok"

\* CONFLICTS.  A table conflicts with itself when it gives one label on several
\* rows, and with the dataset when the link file of a label would carry the
\* name of a file that is already there (a fragment called "5" next to
\* --no-colon-suffix, a file called "5:0").  The statement is silent on what
\* the tool must do then; reading adopted (I7):
\*  - whatever the outcome, files that existed before keep their bytes (I6);
\*  - the tool may REFUSE (non-zero status / exception): nothing more is asked
\*    (link files written before the refusal may stay);
\*  - if it reports success, every label has exactly one new link file and it
\*    lists ALL the fragments the table gives for that label on any of its
\*    rows, each as often as given, in any order.
Conflict(rows, suffix, before) ==
  \/ \E r1, r2 \in 1..Len(rows) : r1 # r2 /\ rows[r1][1] = rows[r2][1]
  \/ \E r \in 1..Len(rows), i \in 1..Len(before) : LinkName(rows[r][1], suffix) = before[i][1]
GivenFor(rows, label) ==
  FoldLeft(LAMBDA acc, row : IF row[1] = label THEN acc \o row[2] ELSE acc, << >>, rows)
Count(s, x) == Cardinality({i \in 1..Len(s) : s[i] = x})
SameMultiset(s, u) ==
  /\ Len(s) = Len(u)
  /\ \A i \in 1..Len(s) : Count(s, s[i]) = Count(u, s[i])
LinksConflictClause(rows, suffix, before, after, success) ==
  LET old == {before[i][1] : i \in 1..Len(before)}
      new == {i \in 1..Len(after) : after[i].path \notin old}
      want == {LinkName(rows[r][1], suffix) : r \in 1..Len(rows)}
  IN IF \E i \in 1..Len(before) :
          ~\E j \in 1..Len(after) : after[j].path = before[i][1] /\ after[j].hash = before[i][2]
     THEN "oracle:LinksExact.untouched"
     ELSE IF ~success THEN "ok"
     ELSE IF {after[i].path : i \in new} # want \/ Cardinality(new) # Cardinality(want)
     THEN "oracle:LinksExact.names"
     ELSE IF \E i \in new : \E r \in 1..Len(rows) :
               /\ after[i].path = LinkName(rows[r][1], suffix)
               /\ ~(after[i].st = "json" /\ SameMultiset(after[i].frags, GivenFor(rows, rows[r][1])))
     THEN "oracle:LinksExact.content"
     ELSE "ok"

(***************************************************************************)
(* 7. DESIGN LAYER: writer and reader automaton with deviation switches    *)
(***************************************************************************)
\* A switch record sw = [bound, hdr, flip] names what the code does:
\*   bound : "ge" (index >= n rejected) | "gt" (index > n rejected only)
\*   hdr   : "meshError" | "structError" (struct.unpack fails on < 4 bytes)
\*   flip  : "detNegative" | "never" | "detPositive"
\* MC_Mesh declares them as CONSTANTS; the oracle layer never reads them.

Flatten3(rows) == FoldLeft(LAMBDA acc, r : acc \o <<r[1][1], r[1][2], r[2][1], r[2][2], r[3][1], r[3][2]>>,
                           << >>, rows)
\* save_mesh_as_precomputed: '<I' count, vertices C order, triangles C order
Write(v, t) == [len |-> 4 + 12 * Len(v) + 12 * Len(t),
                hs  |-> W(Len(v)) \o Flatten3(v) \o Flatten3(t)]

\* read_precomputed_mesh as an automaton Count -> Vertices -> Triangles ->
\* Bounds -> Done over the state [pc, res]; one step per statement group
MeshErr(e) == [st |-> "mesh_error", cls |-> e, v |-> << >>, t |-> << >>]
RStart == [pc |-> "Count", res |-> [st |-> "none", cls |-> "", v |-> << >>, t |-> << >>]]
Rejected(sw, w, n) == IF sw.bound = "ge" THEN ~IndexExists(w, n)
                      ELSE ~IsSmallWord(w) \/ w[1] > n
RStep(sw, b, s) ==
  CASE s.pc = "Count" ->
         (IF b.len < 4
          THEN [pc |-> "Done",
                res |-> IF sw.hdr = "structError"
                        THEN [st |-> "exc", cls |-> "struct.error", v |-> << >>, t |-> << >>]
                        ELSE MeshErr("ShortHeader")]
          ELSE [s EXCEPT !.pc = "Vertices"])
    [] s.pc = "Vertices" ->
         (LET nw == WordAt(b, 0) IN
          IF ~IsSmallWord(nw) \/ b.len - 4 < 12 * nw[1]
          THEN [pc |-> "Done", res |-> MeshErr("ShortVertices")]
          ELSE [pc |-> "Triangles", res |-> [s.res EXCEPT !.v = VertexWords(b, nw[1])]])
    [] s.pc = "Triangles" ->
         (LET n == Len(s.res.v)
              rem == b.len - 4 - 12 * n
          IN IF rem % 12 # 0
             THEN [pc |-> "Done", res |-> MeshErr("TriangleLength")]
             ELSE [pc |-> "Bounds", res |-> [s.res EXCEPT !.t = TriangleWords(b, n, rem \div 12)]])
    [] s.pc = "Bounds" ->
         (IF \E i \in 1..Len(s.res.t), d \in 1..3 : Rejected(sw, s.res.t[i][d], Len(s.res.v))
          THEN [pc |-> "Done", res |-> MeshErr("IndexOutOfRange")]
          ELSE [pc |-> "Done", res |-> [s.res EXCEPT !.st = "ok"]])
    [] OTHER -> s

\* affine_transform_mesh on integer geometry
ModelTransform(sw, v, t, M, tr) ==
  LET flip == \/ sw.flip = "detNegative" /\ DetM(M) < 0
              \/ sw.flip = "detPositive" /\ DetM(M) > 0
  IN [v |-> [j \in 1..Len(v) |-> Apply(M, tr, v[j])],
      t |-> [i \in 1..Len(t) |-> IF flip THEN <<t[i][3], t[i][2], t[i][1]>> ELSE t[i]]]
=============================================================================
