---------------------------- MODULE Trace_Shard ----------------------------
(* Trace specification for real sharded datasets (C->S).  One case = one    *)
(* dataset session recorded from the real code: the parameters, the stores  *)
(* that were made (position, payload), the .shard files found on disk after *)
(* close (abstract form, see ShardFormat), the result of fetching EVERY     *)
(* grid position through a freshly opened accessor, and the file hashes of  *)
(* all runs of the same (parameters, stored map) group.                     *)
(* mode "C04": clauses of "readable by any format-following reader".        *)
(* mode "C05": clauses of "returns what was stored, whatever the order".    *)
EXTENDS ShardFormat, Json, IOUtils

Cases == ndJsonDeserialize(IOEnv.TRACE_FILE)

VARIABLES tid, done      \* done: verdicts are computed on successor states (all workers)
vars == <<tid, done>>

FirstBad(seq) ==
  IF \E i \in 1..Len(seq) : seq[i] # "ok"
  THEN seq[CHOOSE i \in 1..Len(seq) : seq[i] # "ok" /\ \A j \in 1..(i - 1) : seq[j] = "ok"]
  ELSE "ok"

FileClause(cfg, f) ==
  IF ~IsHex(f.name) THEN "oracle:FileName"
  ELSE ShardClause(cfg, f, HexVal(f.name))

StoreClause(c, s) ==
  LET r == SpecLookup(c.cfg, c.files, Code(c.cfg.grid, s.pos)) IN
  IF r.st # "found" THEN "oracle:SpecLookupFinds"
  ELSE IF r.pay.st # "ok" \/ r.pay.data # s.pay THEN "oracle:SpecLookupBytes"
  ELSE "ok"

C04Clause(c) ==
  FirstBad( <<IF c.storeerr # << >> THEN "oracle:StoreRaised" ELSE "ok">>
            \o [k \in 1..Len(c.files) |-> FileClause(c.cfg, c.files[k])]
            \o [k \in 1..Len(c.stores) |-> StoreClause(c, c.stores[k])] )

StoredAt(c, pos) == {k \in 1..Len(c.stores) : c.stores[k].pos = pos}

FetchClause(c, f) ==
  LET S == StoredAt(c, f.pos) IN
  IF S # {}
  THEN (IF f.st = "bytes" /\ f.data = c.stores[CHOOSE k \in S : TRUE].pay
        THEN "ok" ELSE "oracle:FetchStored")
  ELSE (IF f.st = "exc" \/ (f.st = "bytes" /\ f.data = << >>)
        THEN "ok" ELSE "oracle:NeverStoredHasData")

C05Clause(c) ==
  FirstBad( <<IF c.storeerr # << >> THEN "oracle:StoreRaised" ELSE "ok">>
            \o [k \in 1..Len(c.fetch) |-> FetchClause(c, c.fetch[k])]
            \o <<IF \A i, j \in 1..Len(c.hashes) : c.hashes[i] = c.hashes[j]
                 THEN "ok" ELSE "oracle:ByteIdentical">> )

Clause(c) == IF c.mode = "C04" THEN C04Clause(c) ELSE C05Clause(c)

Init == tid \in 1..Len(Cases) /\ done = FALSE
Next == ~done /\ done' = TRUE /\ UNCHANGED tid
Spec == Init /\ [][Next]_vars

Emit == done =>
        LET cl == Clause(Cases[tid]) IN
        PrintT(<<"VERDICT", tid, IF cl = "ok" THEN "ok" ELSE "bad", cl, 0>>)
=============================================================================
