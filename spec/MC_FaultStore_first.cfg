SPECIFICATION Spec
CONSTANTS
  IndexOrder = "first"
  NWrites = 5
INVARIANT AfterCrashClassified
INVARIANT FailIsError
INVARIANT NoSilentFailure
INVARIANT OthersUntouched
