---------------------------- MODULE ShardFormat ----------------------------
(* Oracle layer: what a reader written ONLY from the Neuroglancer           *)
(* "neuroglancer_uint64_sharded_v1" format text does with a shard file.     *)
(*                                                                          *)
(* A shard file is handed to the specification in abstract form (produced   *)
(* either by the design layer ShardWriter, or by harness/parsers.py, a pure *)
(* byte-level re-encoding of a real .shard file):                           *)
(*   [name  : STRING,                                                       *)
(*    len   : Nat,                         \* file length in bytes          *)
(*    index : Seq(<<start, end>>),         \* the pairs found in the first  *)
(*                                         \* bytes of the file, as stored  *)
(*    minis : Seq([st, ids, offs, sizes, abs, pay])]                        *)
(* minis[k] is what is found by following index[k]: st = "empty" when       *)
(* start = end, "bad" when the region is outside the file / cannot be       *)
(* decoded / is not 3n words, otherwise "ok" with the three rows of the     *)
(* decoded minishard index AS STORED (delta encoded): ids (bit sequences),  *)
(* offs, sizes (naturals, saturated at Big), plus, per entry, the absolute  *)
(* start the extractor used (abs) and the decoded payload it found there.   *)
(* The oracle recomputes every position itself and cross-checks abs.        *)
EXTENDS Morton, TLC

Big == 4194304        \* 2^22: saturation bound for byte offsets (files are far smaller)
SatAdd(a, b) == IF a + b > Big THEN Big ELSE a + b
SumSat(s) == FoldLeft(SatAdd, 0, s)

Pow2(n) == 2^n
HeaderLen(cfg) == 16 * Pow2(cfg.mb)

\* cumulative identifiers of a decoded minishard index
RECURSIVE CumIdsFrom(_, _)
CumIdsFrom(acc, ds) ==
  IF ds = << >> THEN << >>
  ELSE LET v == Add(acc, ds[1]) IN <<v>> \o CumIdsFrom(v, Tail(ds))
CumIds(m) == CumIdsFrom(<< >>, m.ids)

\* absolute start of entry i: end of shard index + all delta offsets up to i
\* + all sizes before i
StartOf(cfg, m, i) ==
  SatAdd(HeaderLen(cfg),
         SatAdd(SumSat(SubSeq(m.offs, 1, i)), SumSat(SubSeq(m.sizes, 1, i - 1))))
EndOf(cfg, m, i) == SatAdd(StartOf(cfg, m, i), m.sizes[i])

N(m) == Len(m.ids)

StrictlyIncreasing(c) == \A i \in 1..(Len(c) - 1) : Less(c[i], c[i + 1])

\* every data range of the file, as <<start, end>>, zero-length ones left out
DataRanges(cfg, f) ==
  UNION { { <<StartOf(cfg, f.minis[k], i), EndOf(cfg, f.minis[k], i), k, i>> :
              i \in {j \in 1..N(f.minis[k]) : f.minis[k].sizes[j] > 0} } :
          k \in {kk \in 1..Len(f.minis) : f.minis[kk].st = "ok"} }

IndexRanges(cfg, f) ==
  { <<SatAdd(HeaderLen(cfg), f.index[k][1]), SatAdd(HeaderLen(cfg), f.index[k][2]), k, 0>> :
      k \in {kk \in 1..Len(f.index) : f.index[kk][1] < f.index[kk][2]} }

Disjoint(r, s) == r[2] <= s[1] \/ s[2] <= r[1]

\* --- the clauses of WellFormedShard, in the order a reader meets them -----
ClauseIndexSize(cfg, f) == Len(f.index) = Pow2(cfg.mb) /\ Len(f.minis) = Len(f.index)
ClauseIndexInside(cfg, f) ==
  \A k \in 1..Len(f.index) :
     /\ f.index[k][1] <= f.index[k][2]
     /\ SatAdd(HeaderLen(cfg), f.index[k][2]) <= f.len
ClauseDecodable(cfg, f) == \A k \in 1..Len(f.minis) : f.minis[k].st # "bad"
ClauseIdsIncreasing(cfg, f) ==
  \A k \in 1..Len(f.minis) : f.minis[k].st = "ok" =>
     /\ StrictlyIncreasing(CumIds(f.minis[k]))
     /\ \A i \in 1..N(f.minis[k]) : Fits(CumIds(f.minis[k])[i], IdWidth)
\* the index of minishard m is the pair at slot m: every id listed at slot k
\* must route to minishard k-1 of this shard
ClauseSlotRule(cfg, f, shardNo) ==
  \A k \in 1..Len(f.minis) : f.minis[k].st = "ok" =>
     \A i \in 1..N(f.minis[k]) :
        LET id == CumIds(f.minis[k])[i] IN
        /\ MiniOf(id, cfg.pb, cfg.mb) = FromNat(k - 1)
        /\ ShardOf(id, cfg.pb, cfg.mb, cfg.sb) = shardNo
ClauseRangesInside(cfg, f) ==
  \A r \in DataRanges(cfg, f) : r[1] >= HeaderLen(cfg) /\ r[2] <= f.len
ClauseRangesDisjoint(cfg, f) ==
  LET all == DataRanges(cfg, f) \cup IndexRanges(cfg, f) IN
  \A r, s \in all : (r[3] # s[3] \/ r[4] # s[4]) => Disjoint(r, s)
\* machinery cross-check: the extractor read the payload where the oracle says
ClauseExtractor(cfg, f) ==
  \A k \in 1..Len(f.minis) : f.minis[k].st = "ok" =>
     \A i \in 1..N(f.minis[k]) :
        f.minis[k].sizes[i] > 0 => f.minis[k].abs[i] = StartOf(cfg, f.minis[k], i)

ShardClause(cfg, f, shardNo) ==
  IF ~ClauseIndexSize(cfg, f) THEN "oracle:IndexSize"
  ELSE IF ~ClauseIndexInside(cfg, f) THEN "oracle:IndexInside"
  ELSE IF ~ClauseDecodable(cfg, f) THEN "oracle:MinishardIndexDecodable"
  ELSE IF ~ClauseIdsIncreasing(cfg, f) THEN "oracle:IdsIncreasing"
  ELSE IF ~ClauseSlotRule(cfg, f, shardNo) THEN "oracle:SlotRule"
  ELSE IF ~ClauseRangesInside(cfg, f) THEN "oracle:RangesInside"
  ELSE IF ~ClauseRangesDisjoint(cfg, f) THEN "oracle:RangesDisjoint"
  ELSE IF ~ClauseExtractor(cfg, f) THEN "machinery:Extractor"
  ELSE "ok"

WellFormedShard(cfg, f, shardNo) == ShardClause(cfg, f, shardNo) = "ok"

\* --- SpecLookup: what the format-following reader returns for `id` --------
NotFound == [st |-> "notfound"]
FileFor(cfg, files, id) ==
  LET nm == ShardName(id, cfg.pb, cfg.mb, cfg.sb)
      S == {k \in 1..Len(files) : files[k].name = nm}
  IN IF S = {} THEN 0 ELSE CHOOSE k \in S : TRUE

SpecLookup(cfg, files, id) ==
  LET fk == FileFor(cfg, files, id) IN
  IF fk = 0 THEN NotFound
  ELSE LET f == files[fk]
           slot == ToNat(MiniOf(id, cfg.pb, cfg.mb)) + 1
       IN IF slot > Len(f.minis) \/ f.minis[slot].st # "ok" THEN NotFound
          ELSE LET m == f.minis[slot]
                   c == CumIds(m)
                   I == {i \in 1..Len(c) : c[i] = id}
               IN IF I = {} THEN NotFound
                  ELSE LET i == CHOOSE j \in I : TRUE
                       IN [st |-> "found", size |-> m.sizes[i], pay |-> m.pay[i]]
=============================================================================
