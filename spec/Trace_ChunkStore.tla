-------------------------- MODULE Trace_ChunkStore --------------------------
(* Trace specification for PrecomputedIO (C03).                              *)
(* kind "hist": [info (Seq of [size, chunks]), channels, lossy, events]      *)
(*   lossy: one boolean PER SCALE (scales of one dataset may use different   *)
(*   encodings); a written array of a narrower type that converts safely is  *)
(*   recorded by the driver as its values in the dataset's type (the         *)
(*   property's "identical ... every value"; the type read back is the       *)
(*   dataset's)                                                              *)
(*   events: [op |-> "write", s, c, res, shape, bytes]                       *)
(*           [op |-> "read",  s, c, res, shape, dt, bytes]                   *)
(*           [op |-> "reopen"]                                               *)
(*   bytes = the little-endian bytes of the (C,Z,Y,X) array (re-encoding by  *)
(*   the driver), dt = dtype name, shape = <<C,Z,Y,X>>.                      *)
(* kind "validate": [size, chunks, items: Seq([c, res])]                     *)
EXTENDS ChunkStore, Json, IOUtils, SequencesExt

Cases == ndJsonDeserialize(IOEnv.TRACE_FILE)

VARIABLES tid, l, status, clause, mem     \* mem: <<s, c>> -> [shape, dt, bytes]
tvars == <<tid, l, status, clause, mem>>
allvars == <<vars, tvars>>

Case == Cases[tid]
Abs(x) == IF x < 0 THEN 0 - x ELSE x

ExpShape(ch, c) == <<ch, c[6] - c[5], c[4] - c[3], c[2] - c[1]>>

Close(a, b) ==      \* JPEG: bounded error (mean <= 8, max <= 64), uint8 data
  /\ Len(a) = Len(b)
  /\ \A i \in 1..Len(a) : Abs(a[i] - b[i]) <= 64
  /\ FoldLeft(LAMBDA acc, i : acc + Abs(a[i] - b[i]), 0, [i \in 1..Len(a) |-> i]) <= 8 * Len(a)

EventClause(e) ==
  IF e.op = "reopen" THEN "ok"
  ELSE LET sc == Case.info[e.s]
           valid == OnGrid(sc.size, sc.chunks, e.c)
           key == <<e.s, e.c>>
       IN IF e.op = "write"
          THEN (IF valid /\ e.res # "ok" THEN "oracle:ValidWriteRejected"
                ELSE IF ~valid /\ e.res = "ok" THEN "oracle:OffGridStored"
                ELSE "ok")
          ELSE \* read
               IF key \notin DOMAIN mem THEN "ok"      \* never written: nothing demanded
               ELSE IF e.res # "ok" THEN "oracle:ReadFailed"
               ELSE IF e.shape # ExpShape(Case.channels, e.c) \/ e.shape # mem[key].shape
                    THEN "oracle:ReadShape"
               ELSE IF e.dt # mem[key].dt THEN "oracle:ReadDtype"
               ELSE IF Case.lossy[e.s]
                    THEN (IF Close(e.bytes, mem[key].bytes) THEN "ok" ELSE "oracle:JpegError")
               ELSE IF e.bytes # mem[key].bytes THEN "oracle:ReadYourWrites"
               \* the array handed out must still hold the same values at the end of the
               \* history (no aliasing between the results of different reads)
               ELSE IF e.late # e.bytes THEN "oracle:ReadResultMutatedLater"
               ELSE "ok"

MemPut(m, k, v) == [q \in DOMAIN m \cup {k} |-> IF q = k THEN v ELSE m[q]]

ValidateItem(c, it) ==
  LET og == OnGrid(c.size, c.chunks, it.c) IN
  IF it.res = "true" /\ ~og THEN "oracle:ValidatorAcceptsOffGrid"
  ELSE IF it.res = "false" /\ og THEN "oracle:ValidatorRejectsOnGrid"
  ELSE IF it.res \notin {"true", "false"} /\ og THEN "oracle:ValidatorRaisedOnGrid"
  ELSE "ok"
FirstBadIdx(c) ==
  LET B == {k \in 1..Len(c.items) : ValidateItem(c, c.items[k]) # "ok"}
  IN IF B = {} THEN 0 ELSE CHOOSE k \in B : \A j \in B : k <= j

TInit == /\ tid \in 1..Len(Cases)
         /\ l = 1 /\ status = "run" /\ clause = "ok" /\ mem = << >>
         /\ info = << >> /\ store = << >> /\ nops = 0 /\ lastRes = "none"

Step ==
  /\ status = "run" /\ Case.kind = "hist" /\ l <= Len(Case.events)
  /\ LET e == Case.events[l]
         cl == EventClause(e)
     IN /\ IF cl = "ok" THEN l' = l + 1 /\ UNCHANGED <<status, clause>>
           ELSE status' = "bad" /\ clause' = cl /\ UNCHANGED l
        /\ mem' = IF e.op = "write" /\ e.res = "ok" /\ OnGrid(Case.info[e.s].size, Case.info[e.s].chunks, e.c)
                  THEN MemPut(mem, <<e.s, e.c>>, [shape |-> e.shape, dt |-> e.dt, bytes |-> e.bytes])
                  ELSE mem
  /\ UNCHANGED <<vars, tid>>

Finish ==
  /\ status = "run"
  /\ \/ (Case.kind = "hist" /\ l > Len(Case.events) /\ status' = "ok" /\ clause' = "ok" /\ UNCHANGED l)
     \/ (Case.kind = "validate" /\
           LET k == FirstBadIdx(Case) IN
           /\ status' = (IF k = 0 THEN "ok" ELSE "bad")
           /\ clause' = (IF k = 0 THEN "ok" ELSE ValidateItem(Case, Case.items[k]))
           /\ l' = k)
  /\ UNCHANGED <<vars, tid, mem>>

TNext == Step \/ Finish
TSpec == TInit /\ [][TNext]_allvars
Emit == status # "run" => PrintT(<<"VERDICT", tid, status, clause, l>>)
=============================================================================
