----------------------------- MODULE FaultStore -----------------------------
(* Store operations of the file accessors refined into their I/O steps,     *)
(* with two environment actions: Fail (the current step returns an OSError) *)
(* and Crash (the process disappears between two steps; a write may be torn *)
(* in the middle).  Crash model: the file holds what `open` left (nothing,  *)
(* or an empty file after truncation) plus a PREFIX of the write sequence.  *)
(*                                                                          *)
(* ORACLE (the reading of C18 adopted, DESIGN 5.C18):                       *)
(*  (1) an operation during which a step failed either ends with an error   *)
(*      of class data-access / OSError, or - if it returns normally - its   *)
(*      postcondition really holds;                                         *)
(*  (2) every OTHER name stored earlier is unchanged;                       *)
(*  (3) after a crash a fresh reader classifies every chunk as Correct,     *)
(*      Absent or Invalid (detectably), the chunk being written also Old;   *)
(*      never Wrong.                                                        *)
(* DESIGN: FileAccessor.store_chunk (makedirs; open create/truncate; gzip   *)
(* header, body, trailer writes; close) and Shard.close (zeroed placeholder *)
(* for the shard index, data, minishard indices, shard index written LAST   *)
(* over the placeholder).  Deviation switches:                              *)
(*   IndexOrder  "last" | "first"  (shard index written before the data)    *)
(*   Tolerated   the step kinds whose failure the standard library absorbs  *)
(*               (stat inside makedirs(exist_ok=True))                      *)
EXTENDS Naturals, Sequences, FiniteSets, TLC

CONSTANTS IndexOrder, NWrites

OpKinds == {"fileNew", "fileOverwrite", "shardClose"}

\* step lists ---------------------------------------------------------------
Rep(x, n) == [i \in 1..n |-> x]
FileSteps == <<"stat", "mkdir", "open">> \o Rep("write", NWrites) \o <<"close">>
ShardSteps ==
  IF IndexOrder = "last"
  THEN <<"mkdir", "open", "zerohdr">> \o Rep("data", 2) \o Rep("midx", 2) \o <<"seek", "hdr", "close">>
  ELSE <<"mkdir", "open", "hdr">> \o Rep("data", 2) \o Rep("midx", 2) \o <<"close">>
Steps(k) == IF k = "shardClose" THEN ShardSteps ELSE FileSteps

VARIABLES kind, gz, pc, file, others, outcome, faultAt
\* file: state of the target file
\*   plain/gz file:  [st: "absent"|"old"|"empty"|"partial"|"complete"]
\*   shard file:     [st: ..., hdr: "none"|"zero"|"torn"|"final", data: 0..2, midx: 0..2]
vars == <<kind, gz, pc, file, others, outcome, faultAt>>

Init == /\ kind \in OpKinds
        /\ gz \in BOOLEAN
        /\ pc = 1
        /\ file = IF kind = "fileOverwrite" THEN [st |-> "old", hdr |-> "none", data |-> 0, midx |-> 0]
                  ELSE [st |-> "absent", hdr |-> "none", data |-> 0, midx |-> 0]
        /\ others = "intact"
        /\ outcome = "running"
        /\ faultAt = 0

Cur == Steps(kind)[pc]

\* effect of executing one step normally
Exec(f, s) ==
  CASE s = "open"    -> [f EXCEPT !.st = "empty", !.hdr = "none", !.data = 0, !.midx = 0]
    [] s = "write"   -> [f EXCEPT !.st = IF pc = Len(Steps(kind)) - 1 THEN "complete" ELSE "partial"]
    [] s = "zerohdr" -> [f EXCEPT !.st = "partial", !.hdr = "zero"]
    [] s = "data"    -> [f EXCEPT !.st = "partial", !.data = @ + 1]
    [] s = "midx"    -> [f EXCEPT !.st = "partial", !.midx = @ + 1]
    [] s = "hdr"     -> [f EXCEPT !.hdr = "final",
                                  !.st = IF IndexOrder = "last" THEN "complete" ELSE "partial"]
    [] s = "close"   -> IF kind = "shardClose" /\ IndexOrder = "first" THEN [f EXCEPT !.st = "complete"] ELSE f
    [] OTHER         -> f

Step == /\ outcome = "running"
        /\ pc <= Len(Steps(kind))
        /\ file' = Exec(file, Cur)
        /\ pc' = pc + 1
        /\ outcome' = IF pc = Len(Steps(kind)) THEN "returned" ELSE "running"
        /\ UNCHANGED <<kind, gz, others, faultAt>>

Tolerated(s) == s = "stat"
Fail == /\ outcome = "running" /\ faultAt = 0
        /\ pc <= Len(Steps(kind))
        /\ faultAt' = pc
        /\ IF Tolerated(Cur)
           THEN pc' = pc + 1 /\ UNCHANGED <<file, outcome>>
           ELSE outcome' = "error" /\ UNCHANGED <<file, pc>>
        /\ UNCHANGED <<kind, gz, others>>

\* crash before the current step, or in the middle of it when it is a write
Crash == /\ outcome = "running" /\ faultAt = 0
         /\ pc <= Len(Steps(kind))
         /\ faultAt' = pc
         /\ outcome' = "crashed"
         /\ \/ UNCHANGED file
            \/ /\ Cur \in {"write", "data", "midx", "zerohdr"} /\ file' = [file EXCEPT !.st = "partial"]
            \/ /\ Cur = "hdr" /\ file' = [file EXCEPT !.hdr = "torn", !.st = "partial"]
         /\ UNCHANGED <<kind, gz, pc, others>>

Next == Step \/ Fail \/ Crash
Spec == Init /\ [][Next]_vars

\* ---- what a fresh reader (accessor + PrecomputedIO.read_chunk) concludes -----
\* a gzip stream is valid only with its trailer; an empty or partial file fails
\* the decoder's size check or the gzip CRC/EOF check -> detectably invalid
ReadClassFile(f) ==
  CASE f.st = "absent"   -> {"Absent"}
    [] f.st = "old"      -> {"Old"}
    [] f.st = "complete" -> {"Correct"}
    [] OTHER             -> {"Invalid"}
\* shard: a chunk is found only through the shard index; the zero placeholder
\* lists nothing; a torn final header lists a prefix of the minishards, whose
\* data and indices are already complete (index written last).  With the index
\* written FIRST, the ranges it lists may not be on disk yet: a short read whose
\* decoding is not guaranteed to fail.
ReadClassShard(f) ==
  CASE f.st = "absent" -> {"Absent"}
    [] f.hdr \in {"none", "zero"} -> {"Absent", "Invalid"}
    [] f.hdr \in {"torn", "final"} /\ f.data = 2 /\ f.midx = 2 -> {"Correct", "Absent", "Invalid"}
    [] OTHER -> {"Invalid", "Wrong"}
ReadClass == IF kind = "shardClose" THEN ReadClassShard(file) ELSE ReadClassFile(file)

AfterCrashClassified ==
  outcome = "crashed" => ReadClass \subseteq {"Correct", "Absent", "Invalid", "Old"}
FailIsError ==
  (outcome = "returned" /\ faultAt # 0) => "Correct" \in ReadClass     \* postcondition holds
NoSilentFailure ==
  (outcome = "returned") => ReadClass = {"Correct"} \/ (kind = "shardClose" /\ "Correct" \in ReadClass)
OthersUntouched == others = "intact"
=============================================================================
