---------------------------- MODULE Gen_Pipeline ----------------------------
(* S->C export: the programs (command lists) TLC enumerates on the design.   *)
(* Every program of length <= MaxLen is explored; to keep the exported set   *)
(* finite and non-redundant ONE witness program is printed per distinct      *)
(*   (input class, directory states, provenance, kind and exit status of the *)
(*    last command, "the last two commands were the same command")           *)
(* i.e. the VIEW below; with one worker the search is breadth first, so the  *)
(* witness is a shortest program reaching that abstract situation.           *)
(* A repeated step is an explicit macro step (Twice) so that every           *)
(* situation also gets a witness ending in "c; c".                           *)
(* Record: <<"BEH", perfect, <<command strings>>, <<predicted exits>>>>      *)
(* command string: op|d|src|type|enc|max|m|sh|copy                           *)
EXTENDS Pipeline
VARIABLES hist, exits, last
gvars == <<vars, hist, exits, last>>

GenDirs == {"A", "B"}
GenTypeEncs == {<<"image", "raw">>, <<"segmentation", "raw">>,
                <<"segmentation", "compressed_segmentation">>}
GenMaxes == {"all", "two", "one"}
GenMaxesQuick == {"all", "one"}
GenMethods == {"auto", "average", "majority", "stride"}
GenMethodsQuick == {"auto", "majority", "stride"}
GenShardings == {"nosh", "s110"}
GenCfg == {[perfect |-> TRUE], [perfect |-> FALSE]}
GenCfgQuick == {[perfect |-> TRUE]}

Cs(c) == c.op \o "|" \o c.d \o "|" \o c.src \o "|" \o c.type \o "|" \o c.enc \o "|"
         \o c.max \o "|" \o c.m \o "|" \o c.sh \o "|" \o c.copy

GenInit == Init /\ hist = << >> /\ exits = << >> /\ last = <<"-", 0, FALSE>>

Once(c) == LET r == Run(c, dirs, cfg.perfect) IN
           /\ Do(c)
           /\ hist' = Append(hist, Cs(c))
           /\ exits' = Append(exits, r.exit)
           /\ last' = <<c.op, r.exit, FALSE>>

Twice(c) == LET r1 == Run(c, dirs, cfg.perfect)
                r2 == Run(c, r1.dirs, cfg.perfect)
            IN
            /\ n + 2 <= MaxLen
            /\ c.op # "Stats"
            /\ dirs' = r2.dirs
            /\ prov' = [prov EXCEPT ![c.d] = ProvStep(ProvStep(@, c, r1.exit), c, r2.exit)]
            /\ n' = n + 2
            /\ UNCHANGED cfg
            /\ hist' = hist \o <<Cs(c), Cs(c)>>
            /\ exits' = exits \o <<r1.exit, r2.exit>>
            /\ last' = <<c.op, r2.exit, TRUE>>

GenNext == \E c \in Alphabet : Once(c) \/ Twice(c)
GenSpec == GenInit /\ [][GenNext]_gvars
GenView == <<cfg, dirs, prov, last>>
Emit == n >= 1 => PrintT(<<"BEH", cfg.perfect, hist, exits>>)
=============================================================================
