---------------------------- MODULE Gen_Pipeline ----------------------------
(* S->C export: the programs (command lists) TLC enumerates on the design.   *)
(* Every program of length <= MaxLen is explored; to keep the exported set   *)
(* finite and non-redundant ONE witness program is printed per distinct      *)
(*   (input class, directory states, provenance, kind and exit status of the *)
(*    last command, "the last two commands were the same command")           *)
(* i.e. the VIEW below; with one worker the search is breadth first, so the  *)
(* witness is a shortest program reaching that abstract situation.           *)
(* A repeated step is an explicit macro step (Twice) so that every           *)
(* situation also gets a witness ending in "c; c".                           *)
(* Record: <<"BEH", json>> with json = {"perfect":..,"nall":..,"prog":[command strings],*)
(* "exits":[predicted exit codes],"pair":clause (a) relates the two         *)
(* directories,"rep","op","ex","cls": the last command}; command string:    *)
(*   op|d|src|type|enc|max|m|sh|copy|code                                      *)
EXTENDS Pipeline, Json
VARIABLES hist, exits, last
gvars == <<vars, hist, exits, last>>

GenDirs == {"A", "B"}
GenTypeEncs == {<<"image", "raw">>, <<"segmentation", "raw">>,
                <<"segmentation", "compressed_segmentation">>}
GenMaxes == {"all", "two", "one"}
GenMaxesQuick == {"all"}
GenMethods == {"auto", "majority", "stride"}
GenMethodsQuick == {"auto", "majority"}
GenTypeEncsQuick == {<<"image", "raw">>, <<"segmentation", "compressed_segmentation">>}
GenShardings == {"nosh", "s110"}
GenCodes == {"RPI", "LIP"}
GenCodesQuick == {"RPI"}
GenNone == {}
GenMeshDirs == {"m1", "m2"}
GenMeshNames == {"f1", "f2"}
GenMeshNamesQuick == {"f1"}
GenTables == {"t1", "t2"}
GenTablesQuick == {"t2"}
GenMeshTypeEncs == {<<"segmentation", "raw">>}
GenOneMethod == {"auto"}
GenCfg == {[perfect |-> TRUE, nall |-> 3]}

Cs(c) == c.op \o "|" \o c.d \o "|" \o c.src \o "|" \o c.type \o "|" \o c.enc \o "|"
         \o c.max \o "|" \o c.m \o "|" \o c.sh \o "|" \o c.copy \o "|" \o c.code

\* storage class the last command worked on (after the command):
\* "S" sharded info, "P" unsharded info, "-" no info; Convert: source then destination
ShOf(ds) == IF ds.info.n = 0 THEN "-" ELSE IF ds.info.sh = "nosh" THEN "P" ELSE "S"
\* "s": the full resolution of that directory was written by slices-to-precomputed
FromSlices(ds) == IF ds.chunks[1] \in {SliceContent(code) : code \in Codes} THEN "s" ELSE ""
Class(c, D) == IF c.op = "Convert" THEN ShOf(D[c.src]) \o ShOf(D[c.d]) \o c.copy \o FromSlices(D[c.src])
               ELSE IF c.op \in {"Vol", "Slices", "Compute", "Stats"}
                    THEN ShOf(D[c.d]) \o FromSlices(D[c.d])
               \* all-in-one on a directory that already has an info: with ("f") or
               \* without ("e") the full-resolution chunks
               ELSE IF c.op = "AllInOne"
                    THEN (IF D[c.d].chunks[1] = "absent" THEN "e" ELSE "f")
               \* generate-scales-info: the destination has ("i") / has no ("n") info afterwards
               \* mesh commands: storage class, then the mesh key of the info AFTER the command
               \* ("k" the directory the command names, "x" another one, "0" none)
               ELSE IF c.op = "Mesh"
                    THEN ShOf(D[c.d]) \o (IF D[c.d].info.mesh = c.m THEN "k"
                                           ELSE IF D[c.d].info.mesh = "none" THEN "0" ELSE "x")
               ELSE IF c.op = "Link"
                    THEN ShOf(D[c.d]) \o (IF D[c.d].info.mesh = "none" THEN "0" ELSE "k")
                                       \o (IF D[c.d].frags = {} THEN "e" ELSE "f")
               ELSE IF c.op = "GenScales" THEN (IF D[c.d].info.n # 0 THEN "i" ELSE "n")
               ELSE "-"

GenInit == Init /\ hist = << >> /\ exits = << >> /\ last = <<"-", 0, FALSE, "-">>

Once(c) == LET r == Run(c, dirs, cfg) IN
           /\ Do(c)
           /\ hist' = Append(hist, Cs(c))
           /\ exits' = Append(exits, r.exit)
           /\ last' = <<c.op, r.exit, FALSE, Class(c, r.dirs)>>

Twice(c) == LET r1 == Run(c, dirs, cfg)
                r2 == Run(c, r1.dirs, cfg)
            IN
            /\ n + 2 <= MaxLen
            /\ c.op # "Stats"
            /\ dirs' = r2.dirs
            /\ prov' = [prov EXCEPT ![c.d] = ProvStep(ProvStep(@, c, r1.exit), c, r2.exit)]
            /\ n' = n + 2
            /\ UNCHANGED cfg
            /\ hist' = hist \o <<Cs(c), Cs(c)>>
            /\ exits' = exits \o <<r1.exit, r2.exit>>
            /\ last' = <<c.op, r2.exit, TRUE, Class(c, r2.dirs)>>

\* directories are interchangeable: the first command works on "A"
GenNext == \E c \in Alphabet : (n = 0 => c.d = "A") /\ (Once(c) \/ Twice(c))
GenSpec == GenInit /\ [][GenNext]_gvars
GenView == <<cfg, dirs, prov, last>>
Emit == n >= 1 => PrintT(<<"BEH", ToJson([perfect |-> cfg.perfect, nall |-> cfg.nall, prog |-> hist, exits |-> exits,
                                           pair |-> AioPairs(prov) # {}, rep |-> last[3],
                                           op |-> last[1], ex |-> last[2], cls |-> last[4]])>>)
=============================================================================
