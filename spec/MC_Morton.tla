----------------------------- MODULE MC_Morton -----------------------------
(* Use (M) for C09: properties of the compressed Morton code definition     *)
(* on all small grids, and the package's uint64 mask arithmetic (design     *)
(* layer, transcribed at a reduced identifier width W) against the oracle   *)
(* routing operators for every bit triple, including totals beyond W.       *)
EXTENDS Morton, TLC
CONSTANTS MaxG, LineMax, W, MaxTotal

VARIABLES grid, triple
vars == <<grid, triple>>

Grids == {<<x, y, z>> : x \in 1..MaxG, y \in 1..MaxG, z \in 1..MaxG}
         \cup {<<1, 1, n>> : n \in 1..LineMax}
         \cup {<<n, 1, 1>> : n \in 1..LineMax}
Triples == {t \in (0..MaxTotal) \X (0..MaxTotal) \X (0..MaxTotal) : t[1] + t[2] + t[3] <= MaxTotal}

Init == \/ grid \in Grids /\ triple = <<0, 0, 0>>
        \/ grid = <<1, 1, 1>> /\ triple \in Triples
Next == UNCHANGED vars
Spec == Init /\ [][Next]_vars

\* --- properties of the definition ---------------------------------------
InjectiveInv == Injective(grid)
BoundedInv == Bounded(grid)
\* increasing one coordinate increases the code
MonotoneInv ==
  \A p \in AllPos(grid) : \A d \in 1..3 :
     p[d] + 1 < grid[d] =>
       Less(Code(grid, p), Code(grid, [p EXCEPT ![d] = @ + 1]))
\* the codes of a grid whose sizes are all powers of two are exactly 0..n-1
DenseInv ==
  (\A d \in 1..3 : 2^NBits(grid[d]) = grid[d]) =>
     {ToNat(Code(grid, p)) : p \in AllPos(grid)} = 0..(grid[1] * grid[2] * grid[3] - 1)

\* --- design layer: ShardSpec masks + CMCReadWrite keys at width W --------
\* uintW arithmetic as in NumPy: shifts by >= W give 0, ~ is complement in W bits
MaxW == 2^W - 1
Shr(x, n) == IF n >= W THEN 0 ELSE x \div 2^n
Shl(x, n) == IF n >= W THEN 0 ELSE (x * 2^n) % 2^W
Not(x) == MaxW - x
RECURSIVE AndN(_, _, _)
AndN(a, b, k) == IF k = 0 THEN 0
                 ELSE (IF a % 2 = 1 /\ b % 2 = 1 THEN 1 ELSE 0) + 2 * AndN(a \div 2, b \div 2, k - 1)
And(a, b) == AndN(a, b, W)
MiniMask(mb) == Not(Shl(Shr(MaxW, mb), mb))
ShardMask(mb, sb) == And(Not(Shl(Shr(MaxW, mb + sb), mb + sb)), Not(MiniMask(mb)))
DesignMini(id, pb, mb) == And(MiniMask(mb), Shr(id, pb))
DesignShard(id, pb, mb, sb) == Shr(And(ShardMask(mb, sb), Shr(id, pb)), mb)

MaskInv ==
  \A id \in 0..MaxW :
     /\ FromNat(DesignMini(id, triple[1], triple[2])) = MiniOf(FromNat(id), triple[1], triple[2])
     /\ FromNat(DesignShard(id, triple[1], triple[2], triple[3]))
          = ShardOf(FromNat(id), triple[1], triple[2], triple[3])
=============================================================================
