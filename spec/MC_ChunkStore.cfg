SPECIFICATION Spec
CONSTANTS
  ValidatorBounds = "checked"
  MaxOps = 4
  Infos <- MCInfos
INVARIANT OnlyOnGridStored
INVARIANT ValidatorIsOnGrid
PROPERTY Independence
