------------------------------ MODULE Tiler1D ------------------------------
(* Unbounded lemma behind the volume tiler (C01, Grid.tla): along one axis   *)
(* the chunks [k*c, Min((k+1)*c, n)) for k = 0, 1, ... with k*c < n cover    *)
(* every voxel 0..n-1 (Covered) and no voxel twice (AtMostOnce), for EVERY   *)
(* size n and chunk size c > 0 - the bounded model checking of MC_Grid       *)
(* covers sizes 1..5 x chunk sizes 1..4 only.  Checked by tlapm (Z3).        *)
EXTENDS Integers, NaturalsInduction, TLAPS

Min2(a, b) == IF a <= b THEN a ELSE b
Lo(k, c) == k * c
Hi(k, c, n) == Min2((k + 1) * c, n)
InTile(x, k, c, n) == Lo(k, c) <= x /\ x < Hi(k, c, n)

LEMMA Distrib == \A a, b, c \in Int : (a + b) * c = a * c + b * c
  BY Z3
LEMMA NonNeg == \A d, c \in Nat : d * c >= 0
  BY Z3
LEMMA NextTile == \A q, c \in Int : (q + 2) * c = (q + 1) * c + c
  BY Z3
LEMMA MulMono == \A a, b, c \in Nat : a <= b => a * c <= b * c
  <1> SUFFICES ASSUME NEW a \in Nat, NEW b \in Nat, NEW c \in Nat, a <= b PROVE a * c <= b * c  OBVIOUS
  <1> DEFINE d == b - a
  <1>1. d \in Nat /\ b = a + d  OBVIOUS
  <1>2. b * c = a * c + d * c  BY <1>1, Distrib
  <1>3. d * c >= 0  BY NonNeg
  <1>4. a * c \in Int /\ d * c \in Int  OBVIOUS
  <1> QED BY <1>2, <1>3, <1>4

LEMMA Quotient ==
  ASSUME NEW c \in Nat, c > 0
  PROVE  \A y \in Nat : \E q \in Nat : q * c <= y /\ y < (q + 1) * c
<1> DEFINE P(y) == \E q \in Nat : q * c <= y /\ y < (q + 1) * c
<1>1. P(0)
  <2>1. 0 * c <= 0 /\ 0 < (0 + 1) * c  BY Z3
  <2> QED BY <2>1
<1>2. \A y \in Nat : P(y) => P(y + 1)
  <2> SUFFICES ASSUME NEW y \in Nat, P(y) PROVE P(y + 1)  OBVIOUS
  <2>1. PICK q \in Nat : q * c <= y /\ y < (q + 1) * c  OBVIOUS
  <2>2. q * c \in Int /\ (q + 1) * c \in Int  OBVIOUS
  <2>3. CASE y + 1 < (q + 1) * c
    <3>1. q * c <= y + 1  BY <2>1, <2>2
    <3> QED BY <2>3, <3>1
  <2>4. CASE ~(y + 1 < (q + 1) * c)
    <3>1. (q + 1) * c <= y + 1  BY <2>4, <2>2
    <3>2. ((q + 1) + 1) * c = (q + 1) * c + c  BY NextTile
    <3>3. y + 1 < ((q + 1) + 1) * c  BY <2>1, <2>2, <3>2
    <3>4. q + 1 \in Nat  OBVIOUS
    <3> QED BY <3>1, <3>3, <3>4
  <2> QED BY <2>3, <2>4
<1>3. \A y \in Nat : P(y)
  <2> HIDE DEF P
  <2> QED BY <1>1, <1>2, NatInduction
<1> QED BY <1>3

THEOREM Covered ==
  ASSUME NEW n \in Nat, NEW c \in Nat, c > 0, NEW x \in 0..(n - 1)
  PROVE  \E k \in Nat : k * c < n /\ InTile(x, k, c, n)
<1>0. x \in Nat /\ x < n  OBVIOUS
<1>1. PICK k \in Nat : k * c <= x /\ x < (k + 1) * c  BY <1>0, Quotient
<1>2. k * c \in Int /\ (k + 1) * c \in Int  OBVIOUS
<1>3. k * c < n  BY <1>0, <1>1, <1>2
<1>4. InTile(x, k, c, n)  BY <1>0, <1>1, <1>2 DEF InTile, Lo, Hi, Min2
<1> QED BY <1>3, <1>4

THEOREM AtMostOnce ==
  ASSUME NEW n \in Nat, NEW c \in Nat, c > 0, NEW x \in Int,
         NEW k1 \in Nat, NEW k2 \in Nat,
         InTile(x, k1, c, n), InTile(x, k2, c, n)
  PROVE  k1 = k2
<1>0. k1 * c \in Int /\ (k1 + 1) * c \in Int /\ k2 * c \in Int /\ (k2 + 1) * c \in Int  OBVIOUS
<1>1. k1 * c <= x /\ x < (k1 + 1) * c /\ k2 * c <= x /\ x < (k2 + 1) * c
  BY <1>0 DEF InTile, Lo, Hi, Min2
<1>2. ~(k1 < k2)
  <2> SUFFICES ASSUME k1 < k2 PROVE FALSE  OBVIOUS
  <2>1. k1 + 1 <= k2 /\ k1 + 1 \in Nat  OBVIOUS
  <2>2. (k1 + 1) * c <= k2 * c  BY <2>1, MulMono
  <2> DEFINE A == (k1 + 1) * c
  <2> DEFINE B == k2 * c
  <2>3. A \in Int /\ B \in Int /\ x < A /\ A <= B /\ B <= x  BY <1>0, <1>1, <2>2
  <2> HIDE DEF A, B
  <2> QED BY <2>3
<1>3. ~(k2 < k1)
  <2> SUFFICES ASSUME k2 < k1 PROVE FALSE  OBVIOUS
  <2>1. k2 + 1 <= k1 /\ k2 + 1 \in Nat  OBVIOUS
  <2>2. (k2 + 1) * c <= k1 * c  BY <2>1, MulMono
  <2> DEFINE A == (k2 + 1) * c
  <2> DEFINE B == k1 * c
  <2>3. A \in Int /\ B \in Int /\ x < A /\ A <= B /\ B <= x  BY <1>0, <1>1, <2>2
  <2> HIDE DEF A, B
  <2> QED BY <2>3
<1>4. k1 \in Int /\ k2 \in Int  OBVIOUS
<1> QED BY <1>2, <1>3, <1>4
=============================================================================
