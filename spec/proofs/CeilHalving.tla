---------------------------- MODULE CeilHalving ----------------------------
(* Unbounded lemma behind the pyramid sizes (C08 SizeRule, C06): rounding up *)
(* level by level equals rounding up once,                                   *)
(*      ceil(ceil(n / a) / b) = ceil(n / (a * b)),                           *)
(* for EVERY size n and all positive factors a, b - so the sizes that the    *)
(* generator obtains by halving the previous level are the sizes the         *)
(* property states (full size divided by the per-axis factor, rounded up).   *)
(* ceil(n / a) is characterised without division: IsCeil(q, n, a) says that  *)
(* q is the unique integer with (q - 1) * a < n <= q * a.                    *)
EXTENDS Integers, TLAPS

IsCeil(q, n, a) == q \in Nat /\ (q - 1) * a < n /\ n <= q * a

LEMMA Distrib == \A a, b, c \in Int : (a + b) * c = a * c + b * c
  BY Z3
LEMMA NonNeg == \A d, c \in Nat : d * c >= 0
  BY Z3
LEMMA Assoc == \A a, b, c \in Int : (a * b) * c = a * (b * c)
  BY Z3
LEMMA Comm == \A a, b \in Int : a * b = b * a
  BY Z3
LEMMA MulMonoInt == \A a, b \in Int, c \in Nat : a <= b => a * c <= b * c
  <1> SUFFICES ASSUME NEW a \in Int, NEW b \in Int, NEW c \in Nat, a <= b PROVE a * c <= b * c  OBVIOUS
  <1> DEFINE d == b - a
  <1>1. d \in Nat /\ b = a + d  OBVIOUS
  <1>2. b * c = a * c + d * c  BY <1>1, Distrib
  <1>3. d * c >= 0  BY <1>1, NonNeg
  <1>4. a * c \in Int /\ d * c \in Int  OBVIOUS
  <1> QED BY <1>2, <1>3, <1>4

THEOREM CeilOfCeil ==
  ASSUME NEW n \in Nat, NEW a \in Nat, NEW b \in Nat, a > 0, b > 0,
         NEW q \in Nat, NEW r \in Nat,
         IsCeil(q, n, a), IsCeil(r, q, b)
  PROVE  IsCeil(r, n, a * b)
<1>1. (q - 1) * a < n /\ n <= q * a /\ (r - 1) * b < q /\ q <= r * b  BY DEF IsCeil
<1>2. q * a <= (r * b) * a  BY <1>1, MulMonoInt
<1>3. (r * b) * a = r * (a * b)
  <2>1. (r * b) * a = r * (b * a)  BY Assoc
  <2>2. b * a = a * b  BY Comm
  <2> QED BY <2>1, <2>2
<1>4. n <= r * (a * b)
  <2> DEFINE A == q * a
  <2> DEFINE B == (r * b) * a
  <2> DEFINE C == r * (a * b)
  <2>1. A \in Int /\ B \in Int /\ C \in Int /\ n <= A /\ A <= B /\ B = C  BY <1>1, <1>2, <1>3
  <2> HIDE DEF A, B, C
  <2>2. n <= C  BY <2>1
  <2> QED BY <2>2 DEF C
<1>5. (r - 1) * b <= q - 1
  <2>1. (r - 1) * b \in Int  OBVIOUS
  <2> QED BY <1>1, <2>1
<1>6. ((r - 1) * b) * a <= (q - 1) * a  BY <1>5, MulMonoInt
<1>7. ((r - 1) * b) * a = (r - 1) * (a * b)
  <2>1. ((r - 1) * b) * a = (r - 1) * (b * a)  BY Assoc
  <2>2. b * a = a * b  BY Comm
  <2> QED BY <2>1, <2>2
<1>8. (r - 1) * (a * b) < n
  <2> DEFINE A == (q - 1) * a
  <2> DEFINE B == ((r - 1) * b) * a
  <2> DEFINE C == (r - 1) * (a * b)
  <2>1. A \in Int /\ B \in Int /\ C \in Int /\ A < n /\ B <= A /\ B = C  BY <1>1, <1>6, <1>7
  <2> HIDE DEF A, B, C
  <2>2. C < n  BY <2>1
  <2> QED BY <2>2 DEF C
<1> QED BY <1>4, <1>8 DEF IsCeil

\* the characterisation pins the value down: two integers with the property are equal
THEOREM CeilUnique ==
  ASSUME NEW n \in Nat, NEW a \in Nat, a > 0, NEW q1 \in Nat, NEW q2 \in Nat,
         IsCeil(q1, n, a), IsCeil(q2, n, a)
  PROVE  q1 = q2
<1>1. (q1 - 1) * a < n /\ n <= q1 * a /\ (q2 - 1) * a < n /\ n <= q2 * a  BY DEF IsCeil
<1>2. ~(q1 < q2)
  <2> SUFFICES ASSUME q1 < q2 PROVE FALSE  OBVIOUS
  <2>1. q1 <= q2 - 1 /\ q1 \in Int /\ q2 - 1 \in Int  OBVIOUS
  <2>2. q1 * a <= (q2 - 1) * a  BY <2>1, MulMonoInt
  <2> DEFINE A == q1 * a
  <2> DEFINE B == (q2 - 1) * a
  <2>3. A \in Int /\ B \in Int /\ n <= A /\ A <= B /\ B < n  BY <1>1, <2>2
  <2> HIDE DEF A, B
  <2> QED BY <2>3
<1>3. ~(q2 < q1)
  <2> SUFFICES ASSUME q2 < q1 PROVE FALSE  OBVIOUS
  <2>1. q2 <= q1 - 1 /\ q2 \in Int /\ q1 - 1 \in Int  OBVIOUS
  <2>2. q2 * a <= (q1 - 1) * a  BY <2>1, MulMonoInt
  <2> DEFINE A == q2 * a
  <2> DEFINE B == (q1 - 1) * a
  <2>3. A \in Int /\ B \in Int /\ n <= A /\ A <= B /\ B < n  BY <1>1, <2>2
  <2> HIDE DEF A, B
  <2> QED BY <2>3
<1>4. q1 \in Int /\ q2 \in Int  OBVIOUS
<1> QED BY <1>2, <1>3, <1>4
=============================================================================
