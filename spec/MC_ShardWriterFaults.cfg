SPECIFICATION FSpec
CONSTANTS
  SlotPlacement = "bySlot"
  EmptySlotRead = "skip"
  Sticky = "brokenFlag"
  CfgSpace <- MCCfgSpace
INVARIANT NoSilentLoss
INVARIANT FailureReported
INVARIANT FaultFreeSame
