---- MODULE MC_FileStore ----
EXTENDS FileStore
\* the operation counter only bounds the exploration: leaving it out of the
\* state VIEW and lifting MaxOps makes TLC visit EVERY reachable storage state,
\* i.e. histories of every length (cfg MC_FileStore_unbounded)
NoCounterView == <<cfg, disk, latest, latestC, noOwBroken>>
====
