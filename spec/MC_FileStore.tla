---- MODULE MC_FileStore ----
EXTENDS FileStore
====
