---------------------------- MODULE MC_Pipeline ----------------------------
(* Bounded instances of Pipeline for model checking (use M).                 *)
(*   MC_Pipeline_quick  : programs of length <= 6 on two directories over a  *)
(*                        reduced option alphabet, one orientation code      *)
(*   MC_Pipeline        : programs of length <= 6 over the full alphabet,    *)
(*                        two orientation codes, two input classes           *)
(*   MC_Pipeline_all    : EVERY program (no length bound): the abstract      *)
(*                        state space is finite, n is hidden by a VIEW       *)
(*                        (three methods, one orientation code)              *)
(*   MC_Pipeline_all_quick : the same over the reduced option alphabet       *)
(*   MC_Pipeline_mesh(_quick) : the mesh commands (mesh-to-precomputed,      *)
(*                        link-mesh-fragments) interleaved with the volume   *)
(*                        commands over a reduced option alphabet            *)
(*   MC_Pipeline_devMethod / _devLayout / _devMesh : deviation switches -    *)
(*                        must FAIL                                          *)
EXTENDS Pipeline
MCDirs == {"A", "B"}
FullTypeEncs == {<<"image", "raw">>, <<"segmentation", "raw">>,
                 <<"segmentation", "compressed_segmentation">>}
QuickTypeEncs == {<<"image", "raw">>, <<"segmentation", "compressed_segmentation">>}
FullMaxes == {"all", "two", "one"}
QuickMaxes == {"all", "one"}
FullMethods == {"auto", "average", "majority", "stride"}
QuickMethods == {"auto", "majority"}
MidMethods == {"auto", "majority", "stride"}
FullShardings == {"nosh", "s110"}
FullCodes == {"RPI", "LIP"}
NoCodes == {}
NoMesh == {}
MeshDirs2 == {"m1", "m2"}
MeshNames2 == {"f1", "f2"}
MeshNames1 == {"f1"}
Tables2 == {"t1", "t2"}
Tables1 == {"t2"}
MeshTypeEncs == {<<"segmentation", "raw">>}
OneMethod == {"auto"}
OneMax == {"all"}
QuickCodes == {"RPI"}
FullCfg == {[perfect |-> p, nall |-> k] : p \in BOOLEAN, k \in {1, 2, 3}}
MidCfg == {[perfect |-> TRUE, nall |-> 3], [perfect |-> FALSE, nall |-> 2]}
QuickCfg == {[perfect |-> TRUE, nall |-> 3]}
ViewNoCount == <<cfg, dirs, prov>>
=============================================================================
