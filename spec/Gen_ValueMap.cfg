SPECIFICATION GenSpec
CONSTANTS
  CopyPolicy = "reuseWhenPossible"
  CfgSpace = {}
INVARIANT Emit
