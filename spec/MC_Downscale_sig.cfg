SPECIFICATION MCSpec
CONSTANTS
  WorkType = "sig"
  SigBits = 4
  TypeBits = 5
  MaxVox = 2
  MaxVox2 = 0
  MaxVoxOther = 0
INVARIANT Design
INVARIANT OracleInRange
