--------------------------- MODULE Gen_FileStore ---------------------------
(* S->C export for C12: behaviours (sequences of store operations) of the   *)
(* FileStore design, produced by TLC simulation; replayed on real accessors. *)
EXTENDS FileStore, Json
VARIABLE hist
gvars == <<vars, hist>>
GenInit == Init /\ hist = << >>
GenNext ==
  \/ \E n \in Names, v \in Data, m \in Mimes, ow \in BOOLEAN :
        StoreFile(n, v, m, ow) /\
        hist' = Append(hist, [op |-> "store_file", name |-> n, v |-> v, mime |-> m, ow |-> ow])
  \/ \E c \in Chunks, v \in Data, m \in Mimes, ow \in BOOLEAN :
        StoreChunk(c, v, m, ow) /\
        hist' = Append(hist, [op |-> "store_chunk", c |-> c, v |-> v, mime |-> m, ow |-> ow])
GenSpec == GenInit /\ [][GenNext]_gvars
Emit == nops = MaxOps => PrintT(<<"BEH", ToJson([cfg |-> cfg, ops |-> hist])>>)
=============================================================================
