SPECIFICATION Spec
CONSTANTS
  ChannelSlice = "to_end"
  Part = "arrays"
  Tier = "full"
INVARIANT Emit
