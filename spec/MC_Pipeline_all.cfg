SPECIFICATION Spec
CONSTANTS
  Dirs <- MCDirs
  TypeEncs <- FullTypeEncs
  Maxes <- FullMaxes
  Methods <- MidMethods
  Shardings <- FullShardings
  Codes <- QuickCodes
  MeshDirs <- NoMesh
  MeshNames <- NoMesh
  Tables <- NoMesh
  MeshRewritesInfo = "keepAll"
  CfgSpace <- MidCfg
  MaxLen = 1000
  AioForwardsMethod = TRUE
  CopyInfoLayout = "byInfo"
INVARIANT TypeOK
INVARIANT AllInOneEqualsSteps
INVARIANT RepeatIsNoop
INVARIANT SuccessMeansComplete
INVARIANT SourceUntouched
INVARIANT ConvertPreserves
VIEW ViewNoCount
