SPECIFICATION Spec
CONSTANTS
  StopRule = "minusDelay"
  ChunkRule = "delayAware"
  SeedSpace <- SeedsQuick
  SizeSpace <- SizeTriplesQ
INVARIANT PairsOk
