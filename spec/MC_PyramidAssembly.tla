------------------------ MODULE MC_PyramidAssembly ------------------------
(* Use (M) for C06: every per-axis instance (old size 1..40, old and new    *)
(* chunk in {1,2,4,8,16}, factor 1|2) walked by the state machine; the      *)
(* outcome classes are REPORTED (PrintT record "CLASSES").                  *)
EXTENDS PyramidAssembly
Chunks == {1, 2, 4, 8, 16}
Space(maxsize) == {[size |-> s, o |-> o, n |-> n, f |-> f] :
                     s \in 1..maxsize, o \in Chunks, n \in Chunks, f \in {1, 2}}
MCSpace == Space(40)
MCSpaceQuick == Space(18)
\* the pairs the code was written for: the property must hold there
MCSpaceIntended == {c \in Space(40) : Intended(c)}

CountOf(S, out) == Cardinality({c \in S : Outcome(c) = out})
Report(S) ==
  PrintT(<<"CLASSES", Cardinality(S), CountOf(S, "Correct"), CountOf(S, "Error"),
           CountOf(S, "SilentWrong"),
           Cardinality({c \in S : Outcome(c) = "SilentWrong" /\ ~UsesBroadcast(c)}),
           Cardinality({c \in S : Outcome(c) = "SilentWrong" /\ ~(H(c) = 1 /\ c.n >= 4)})>>)
ASSUME Report(CfgSpace)
=============================================================================
