SPECIFICATION Spec
CONSTANTS
  Fallback = "anyError"
  MaxOps = 1000
VIEW NoCounterView
INVARIANT TypeOK
INVARIANT ReadYourWrites
INVARIANT NoSilentMisroute
INVARIANT NoStaleRead
