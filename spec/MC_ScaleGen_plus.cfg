SPECIFICATION Spec
CONSTANTS
  StopRule = "plusDelay"
  ChunkRule = "code"
  SeedSpace <- SeedsQuick
  SizeSpace <- SizeTriplesQ
INVARIANT LastFits
