SPECIFICATION Spec
CONSTANTS
  ValidatorBounds = "checked"
  MaxOps = 1000000
  Infos <- MCInfos
VIEW NoCounterView
INVARIANT OnlyOnGridStored
INVARIANT ValidatorIsOnGrid
