SPECIFICATION Spec
CONSTANTS
  Threshold = "gt10"
INVARIANT Emit
