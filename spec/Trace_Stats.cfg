SPECIFICATION Spec
CONSTANTS
  Threshold = "byLength"
INVARIANT Emit
