SPECIFICATION Spec
CONSTANTS
  MimePolicy = "perName"
  MaxOps = 4
INVARIANT LastWriteWins
INVARIANT NoOverwrite
INVARIANT PathsDocumented
