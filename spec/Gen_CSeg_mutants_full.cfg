SPECIFICATION Spec
CONSTANTS
  ChannelSlice = "to_end"
  Part = "mutants"
  Tier = "full"
INVARIANT Emit
