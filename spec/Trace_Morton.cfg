SPECIFICATION Spec
INVARIANT Emit
