SPECIFICATION Spec
CONSTANTS
  Dirs <- MCDirs
  TypeEncs <- MeshTypeEncs
  Maxes <- OneMax
  Methods <- OneMethod
  Shardings <- FullShardings
  Codes <- NoCodes
  MeshDirs <- MeshDirs2
  MeshNames <- MeshNames2
  Tables <- Tables2
  MeshRewritesInfo = "keepAll"
  CfgSpace <- QuickCfg
  MaxLen = 1000
  AioForwardsMethod = TRUE
  CopyInfoLayout = "byInfo"
INVARIANT TypeOK
INVARIANT AllInOneEqualsSteps
INVARIANT RepeatIsNoop
INVARIANT SuccessMeansComplete
INVARIANT SourceUntouched
INVARIANT ConvertPreserves
INVARIANT InfoScalesPreserved
INVARIANT MeshKeyStable
INVARIANT LinksNeedKey
VIEW ViewNoCount
