----------------------------- MODULE MC_Affine -----------------------------
(* The centre/corner convention identity on the 48 signed permutations x    *)
(* volume sizes <= 3 per axis x anisotropic dyadic voxel sizes, with a      *)
(* non-trivial translation (thorough: also two rational rotations and a     *)
(* Pythagorean shear).  Guards the ORACLE against a sign slip of its own:   *)
(* the half-voxel shift must be "minus"; "plus" and "none" must FAIL.       *)
EXTENDS Affine
Perms3 == {p \in (1..3) \X (1..3) \X (1..3) : {p[1], p[2], p[3]} = {1, 2, 3}}
Signs3 == {-1, 1} \X {-1, 1} \X {-1, 1}
SignedPerm(p, s) == [r \in 1..3 |-> [k \in 1..3 |-> IF r = p[k] THEN QInt(s[k]) ELSE QInt(0)]]
SignedPerms == {SignedPerm(p, s) : p \in Perms3, s \in Signs3}
Rot3 == << <<<<1, 3>>, <<2, 3>>, <<2, 3>>>>, <<<<2, 3>>, <<1, 3>>, <<-2, 3>>>>, <<<<2, 3>>, <<-2, 3>>, <<1, 3>>>> >>
Rot7 == << <<<<2, 7>>, <<3, 7>>, <<6, 7>>>>, <<<<3, 7>>, <<-6, 7>>, <<2, 7>>>>, <<<<6, 7>>, <<2, 7>>, <<-3, 7>>>> >>
\* columns (1,0,0), (3/5,4/5,0), (0,0,1): a Pythagorean shear
Shear == << <<<<1, 1>>, <<3, 5>>, <<0, 1>>>>, <<<<0, 1>>, <<4, 5>>, <<0, 1>>>>, <<<<0, 1>>, <<0, 1>>, <<1, 1>>>> >>
VoxelSizes == { <<<<1, 2>>, <<2, 1>>, <<5, 4>>>>, <<<<1, 1>>, <<1, 1>>, <<1, 1>>>>, <<<<3, 4>>, <<1, 8>>, <<3, 1>>>> }
Trans == <<<<-51, 4>>, <<10, 1>>, <<3, 8>>>>
Sizes == (1..3) \X (1..3) \X (1..3)
MCCfgSpace == {[D |-> d, vs |-> v, a |-> Trans, size |-> s] :
                  d \in SignedPerms \cup {Rot3, Rot7, Shear}, v \in VoxelSizes, s \in Sizes}
MCCfgSpaceQuick == {[D |-> d, vs |-> v, a |-> Trans, size |-> s] :
                  d \in SignedPerms, v \in {<<<<1, 2>>, <<2, 1>>, <<5, 4>>>>}, s \in Sizes}
=============================================================================
