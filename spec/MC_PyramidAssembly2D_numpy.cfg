SPECIFICATION Spec2
CONSTANTS
  AssignRule = "numpy"
  CfgSpace <- Small
INVARIANT Factorises
