------------------------------ MODULE MC_Stats ------------------------------
(* Use (M) for the formatter half of C20: the design of readable_count in    *)
(* exact arithmetic satisfies the oracle ReadableOk on every count of the    *)
(* bands  Dense (0..20000),  m * 1024^k +- W  (m in {1, 10, 100, 1000,       *)
(* 1024}, k = 1..6)  and  2^e +- 2 (e <= 70)  when Threshold = "byLength";   *)
(* with Threshold = "gt10" (the code before its fix) TLC finds the band just *)
(* below 10 * 1024^k in which no significant digit is shown (must FAIL).     *)
EXTENDS Stats
CONSTANTS Dense, W          \* Dense: set of small counts enumerated one by one
VARIABLE n

Ms == {1, 10, 100, 1000, 1024}
DenseAll == 0..20000
DenseQuick == (0..1100) \cup (9900..10300)
Around(c) == {Add(c, FromNat(d)) : d \in 0..W} \cup {Sub(c, FromNat(d)) : d \in 1..W}
Init ==
  \/ \E i \in Dense : n = FromNat(i)
  \/ \E m \in Ms, k \in 1..6 : n \in Around(ShiftL(FromNat(m), Base * k))
  \/ \E e \in 2..70, d \in {0, 1, 2} : n = Add(Pow2B(e), FromNat(d)) \/ n = Sub(Pow2B(e), FromNat(d))
Next == UNCHANGED n
Spec == Init /\ [][Next]_n

DesignOk == ReadableOk(n, DesignFormat(n))
=============================================================================
