SPECIFICATION Spec
CONSTANTS
  BoundCheck = "ge"
  ShortHeaderExc = "meshError"
  Pairs = TRUE
  FlipRule = "detNegative"
INVARIANT ReaderMeetsOracle
INVARIANT BoundsSound
INVARIANT RoundTripModel
INVARIANT WindingModel
