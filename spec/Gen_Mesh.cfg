SPECIFICATION GenSpec
CONSTANTS
  BoundCheck = "ge"
  ShortHeaderExc = "meshError"
  Pairs = TRUE
  FlipRule = "detNegative"
INVARIANT Emit
