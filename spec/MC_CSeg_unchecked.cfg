SPECIFICATION Spec
CONSTANTS
  ChannelSlice = "next_unchecked"
  CfgSpace <- MutSpaceQuick
INVARIANT EncodingWellFormed
INVARIANT EncodingValid
INVARIANT EncodingDecodes
INVARIANT EncodingAccepted
INVARIANT ParseTotal
INVARIANT ParseAgrees
INVARIANT ParseComplete
INVARIANT MacroEqualsSteps
INVARIANT UnmutatedAccepted
