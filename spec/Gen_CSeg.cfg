SPECIFICATION Spec
CONSTANTS
  ChannelSlice = "to_end"
  Part = "arrays"
  Tier = "quick"
INVARIANT Emit
