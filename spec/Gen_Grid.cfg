SPECIFICATION GenSpec
CONSTANTS
  Clamp = "min"
  CfgSpace <- GenCfgSpace
INVARIANT Emit
