SPECIFICATION TraceSpec
CONSTANTS
  Dirs <- TraceDirs
  TypeEncs <- Unused
  Maxes <- Unused
  Methods <- Unused
  Shardings <- Unused
  Codes <- Unused
  CfgSpace <- Unused
  MaxLen = 1000
  AioForwardsMethod = TRUE
  CopyInfoLayout = "byInfo"
INVARIANT Emit
