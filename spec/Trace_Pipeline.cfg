SPECIFICATION TraceSpec
CONSTANTS
  Dirs <- TraceDirs
  TypeEncs <- Unused
  Maxes <- Unused
  Methods <- Unused
  Shardings <- Unused
  Codes <- Unused
  MeshDirs <- Unused
  MeshNames <- Unused
  Tables <- Unused
  MeshRewritesInfo = "keepAll"
  CfgSpace <- Unused
  MaxLen = 1000
  AioForwardsMethod = TRUE
  CopyInfoLayout = "byInfo"
INVARIANT Emit
