SPECIFICATION Spec
CONSTANTS
  SliceStop = "minus1"
  CfgSpace <- MCCfgSpaceQuick
INVARIANT OracleSound
INVARIANT NoRaise
INVARIANT NeverTwice
INVARIANT WindowCoversOnce
