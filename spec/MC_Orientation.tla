--------------------------- MODULE MC_Orientation ---------------------------
(* All 48 codes x input sizes <= 3x4x5 with pairwise distinct extents (so a *)
(* transposition cannot hide) x chunk depth 1..6 (smaller than, equal to,   *)
(* not dividing and larger than the slice count).                           *)
EXTENDS Orientation
InSizes == {s \in (1..3) \X (1..4) \X (1..5) : s[1] # s[2] /\ s[1] # s[3] /\ s[2] # s[3]}
MCCfgSpace == {[code |-> c, insize |-> s, depth |-> d] : c \in Codes, s \in InSizes, d \in 1..6}
QuickSizes == {<<2, 3, 4>>, <<3, 1, 5>>, <<1, 4, 2>>, <<3, 2, 1>>, <<2, 4, 5>>}
MCCfgSpaceQuick == {[code |-> c, insize |-> s, depth |-> d] : c \in Codes, s \in QuickSizes, d \in 1..6}
=============================================================================
