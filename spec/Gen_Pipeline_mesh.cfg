SPECIFICATION GenSpec
CONSTANTS
  Dirs <- GenDirs
  TypeEncs <- GenMeshTypeEncs
  Maxes <- GenMaxesQuick
  Methods <- GenOneMethod
  Shardings <- GenShardings
  Codes <- GenNone
  MeshDirs <- GenMeshDirs
  MeshNames <- GenMeshNames
  Tables <- GenTables
  MeshRewritesInfo = "keepAll"
  CfgSpace <- GenCfg
  MaxLen = 6
  AioForwardsMethod = TRUE
  CopyInfoLayout = "byInfo"
VIEW GenView
INVARIANT Emit
