-------------------------------- MODULE Stats --------------------------------
(* C20 - reported statistics.  THIS FILE: the formatter half                 *)
(* (utils.readable_count); the report half (scale-stats versus the dataset   *)
(* that is produced) is added below the marked line by its own builder.      *)
(*                                                                           *)
(* ORACLE LAYER, from the property statement and the function's docstring:   *)
(* for a count n (bit sequence, exact up to 2^70 and beyond) and the         *)
(* returned string, tokenised losslessly as the sequence of its characters:  *)
(*   Format   : digits [ "." digit ] SPACE prefix, prefix one of             *)
(*              "", ki, Mi, Gi, Ti, Pi, Ei (exponent k = 0..6 of 1024);      *)
(*   Digits   : n >= 10  =>  at least two significant digits are shown       *)
(*              (digits from the first non-zero one to the last shown one);  *)
(*   Length   : n <= 2^60 => the string has at most 6 characters;            *)
(*   Distance : |shown * 1024^k - n| <= half a unit of the last shown digit  *)
(*              * 1024^k, i.e. with D = all shown digits read as an integer  *)
(*              and f = number of decimals,                                  *)
(*                 |2 D 1024^k - 2 10^f n|  <=  1024^k  (+ slack).           *)
(* INTERPRETATIONS (weaker readings):                                        *)
(*   * "," is accepted as a thousands separator between integer digits (the  *)
(*     function uses it beyond 1000 Ei); it does not count as a digit.       *)
(*   * slack = 2 10^f floor(n / 2^52): "within rounding distance" is read up *)
(*     to the relative precision 2^-52 of the quotient; it is 0 for every    *)
(*     n < 2^52, so below that the clause is exact.                          *)
(*   * trailing zeros that are shown count as significant ("1.0" has two).   *)
(*                                                                           *)
(* DESIGN LAYER: the prefix-selection loop of readable_count, the float64    *)
(* quotient modelled exactly (53 significant bits).  Threshold = "gt10" is   *)
(* the code before fix 7cbc19a (".0f" when count > 10 * factor, else ".1f"); *)
(* Threshold = "byLength" tries ".1f" and falls back to ".0f" when that is   *)
(* longer than 3 characters (conforming; the code since that fix).           *)
EXTENDS BitsNum

CONSTANT Threshold

Base == 10                       \* 1024 = 2^Base
DigitChars == <<"0", "1", "2", "3", "4", "5", "6", "7", "8", "9">>
IsDigit(ch) == \E d \in 1..10 : DigitChars[d] = ch
DigitVal(ch) == (CHOOSE d \in 1..10 : DigitChars[d] = ch) - 1
PrefixChars == << << >>, <<"k", "i">>, <<"M", "i">>, <<"G", "i">>, <<"T", "i">>, <<"P", "i">>,
                  <<"E", "i">> >>

\* ------------------------------------------------------------- oracle -----
\* parse: [ok, ip (integer characters without commas), fd (<< >> or one digit), k]
Parse(s) ==
  LET bad == [ok |-> FALSE, ip |-> << >>, fd |-> << >>, k |-> 0]
      sp == {i \in 1..Len(s) : s[i] = " "}
  IN IF sp = {} THEN bad
     ELSE LET p == CHOOSE i \in sp : \A j \in sp : i <= j
              num == SubSeq(s, 1, p - 1)
              pre == SubSeq(s, p + 1, Len(s))
              ks == {k \in 0..6 : PrefixChars[k + 1] = pre}
              dots == {i \in 1..Len(num) : num[i] = "."}
          IN IF ks = {} \/ num = << >> \/ Cardinality(dots) > 1 THEN bad
             ELSE LET d == IF dots = {} THEN Len(num) + 1 ELSE CHOOSE i \in dots : TRUE
                      ipart == SubSeq(num, 1, d - 1)
                      fpart == SubSeq(num, d + 1, Len(num))
                  IN IF /\ ipart # << >>
                        /\ IsDigit(ipart[1]) /\ IsDigit(ipart[Len(ipart)])
                        /\ \A i \in 1..Len(ipart) : IsDigit(ipart[i]) \/ ipart[i] = ","
                        /\ \A i \in 1..(Len(ipart) - 1) : ~(ipart[i] = "," /\ ipart[i + 1] = ",")
                        /\ (dots = {} \/ (Len(fpart) = 1 /\ IsDigit(fpart[1])))
                     THEN [ok |-> TRUE, ip |-> SelectSeq(ipart, IsDigit), fd |-> fpart,
                           k |-> CHOOSE k \in ks : TRUE]
                     ELSE bad

Times10(b) == Add(ShiftL(b, 3), ShiftL(b, 1))
Times20(b) == Add(ShiftL(b, 4), ShiftL(b, 2))
\* all shown digits read as one integer (bit sequence)
DigitsToBits(ds) ==
  FoldLeft(LAMBDA acc, ch : Add(Times10(acc), FromNat(DigitVal(ch))), << >>, ds)
SigDigits(ds) ==
  LET nz == {i \in 1..Len(ds) : ds[i] # "0"}
  IN IF nz = {} THEN 0 ELSE Len(ds) - (CHOOSE i \in nz : \A j \in nz : i <= j) + 1

ReadableClause(n, s) ==
  LET t == Parse(s) IN
  IF ~t.ok THEN "oracle:ReadableFormat"
  ELSE LET ds == t.ip \o t.fd
           f == Len(t.fd)
           D == DigitsToBits(ds)
           unit == Pow2B(Base * t.k)                                  \* 1024^k
           lhs == AbsDiff(ShiftL(D, Base * t.k + 1), IF f = 1 THEN Times20(n) ELSE ShiftL(n, 1))
           slack == IF f = 1 THEN Times20(ShiftR(n, 52)) ELSE ShiftL(ShiftR(n, 52), 1)
       IN IF Leq(FromNat(10), n) /\ SigDigits(ds) < 2 THEN "oracle:ReadableDigits"
          ELSE IF Leq(n, Pow2B(60)) /\ Len(s) > 6 THEN "oracle:ReadableLength"
          ELSE IF ~Leq(lhs, Add(unit, slack)) THEN "oracle:ReadableDistance"
          ELSE "ok"
ReadableOk(n, s) == ReadableClause(n, s) = "ok"

\* ------------------------------------------------------------- design -----
\* n / 1024^k (times 10 when f = 1) rounded half-even.  The code divides in
\* float64: the quotient is n rounded to 53 significant bits, scaled exactly;
\* "%.1f" / "%.0f" then round that double correctly (half-even).
RoundedBits(n, k, f) ==
  LET q == RoundSigBits(n, 53)
      m == IF f = 1 THEN Times10(q) ELSE q
  IN RoundMagHE(ShiftR(m, Base * k), Reverse(Pad(Low(m, Base * k), Base * k)))
\* ... as a small natural; 10^6 stands for "a million or more" (7 characters
\* at least: always too long for the loop, never printed for n < 2^80)
Rounded(n, k, f) ==
  LET b == RoundedBits(n, k, f) IN IF Len(b) > 20 THEN 1000000 ELSE ToNat(b)
RECURSIVE DigitsOf(_)
DigitsOf(d) == IF d < 10 THEN <<DigitChars[d + 1]>> ELSE DigitsOf(d \div 10) \o <<DigitChars[(d % 10) + 1]>>
\* characters of the number: "%.0f" (f = 0) or "%.1f" (f = 1) of n / 1024^k
NumChars(n, k, f) ==
  LET r == Rounded(n, k, f) IN
  IF f = 0 THEN DigitsOf(r) ELSE DigitsOf(r \div 10) \o <<".">> \o <<DigitChars[(r % 10) + 1]>>
\* "{:,.0f}"
WithCommas(ds) ==
  [i \in 1..(Len(ds) + ((Len(ds) - 1) \div 3)) |->
     LET fromEnd == (Len(ds) + ((Len(ds) - 1) \div 3)) - i       \* 0 = last character
     IN IF fromEnd % 4 = 3 THEN "," ELSE ds[Len(ds) - (fromEnd - (fromEnd \div 4))]]

Choice(n, k) ==
  IF Threshold = "gt10"
  THEN (IF Less(ShiftL(FromNat(10), Base * k), n) THEN NumChars(n, k, 0) ELSE NumChars(n, k, 1))
  ELSE (IF Len(NumChars(n, k, 1)) <= 3 THEN NumChars(n, k, 1) ELSE NumChars(n, k, 0))
RECURSIVE Loop(_, _)
Loop(n, k) ==
  IF k > 6 THEN WithCommas(NumChars(n, 6, 0)) \o <<" ">> \o PrefixChars[7]
  ELSE LET c == Choice(n, k) IN
       IF Len(c) <= 3 THEN c \o <<" ">> \o PrefixChars[k + 1] ELSE Loop(n, k + 1)
\* the design's string (sequence of characters) for the count n; the counts
\* this is applied to are below 2^53 * 1024^k wherever the plain "%.0f" of the
\* count itself matters (it is only used when it has at most 3 digits)
DesignFormat(n) ==
  IF Len(n) <= 10 /\ Len(NumChars(n, 0, 0)) <= 3 THEN NumChars(n, 0, 0) \o <<" ">>
  ELSE Loop(n, 1)

\* ===================== report half (scale-stats): add below this line =====

=============================================================================
