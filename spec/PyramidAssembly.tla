-------------------------- MODULE PyramidAssembly --------------------------
(* C06 - each pyramid level equals the whole previous level downscaled once.*)
(*                                                                          *)
(* DESIGN layer, PER AXIS.  dyadic_pyramid.compute_dyadic_downscaling fills *)
(* every chunk of the new scale from up to 2x2x2 downscaled chunks of the   *)
(* old scale, copied into eight hand-unrolled octants of an np.empty        *)
(* buffer.  The octants are Cartesian products of per-axis halves, so the   *)
(* 3-D behaviour is the product of three 1-D instances (Factorises, checked *)
(* by TLC on 2-D instances in MC_PyramidAssembly2D).  One axis:             *)
(*   cfg = [size, o, n, f]   old size, old chunk, new chunk, factor 1 | 2   *)
(*   h = o div f  (half_chunk)      k = n div h  (chunk_fetch_factor)       *)
(*   new chunk i, len = its clipped length:                                 *)
(*     part A   dest[0 : h)   <- Down(oldchunk(k*i))                        *)
(*     part B   dest[h : len) <- Down(oldchunk(k*i + 1))      if len > h    *)
(* Slice assignment: the slot is clipped to the buffer.  Deviation switch    *)
(* AssignRule: "strict" (conforming, the code since aaf61b3: fill() raises   *)
(* ValueError unless the shapes are equal) | "numpy" (plain NumPy            *)
(* assignment: lengths equal, or the source has length 1 and is BROADCAST,   *)
(* otherwise ValueError - the code before the fix).                          *)
(* A source chunk beyond the old grid cannot be read -> error.              *)
(* h = 0 (o = 1, f = 2) -> ZeroDivisionError.                               *)
(*                                                                          *)
(* Every voxel carries its PROVENANCE: the set of old voxel indices that    *)
(* its block covered, plus the marker Pad when the block was completed by   *)
(* the downscaler's padding rule (odd chunk length).  Unwritten = never     *)
(* assigned (np.empty garbage).                                             *)
(*                                                                          *)
(* ORACLE layer (from the property text only):                              *)
(*   GlobalDown(size, f)  "the downscaling method applied to the entire     *)
(*                         preceding scale as one array": voxel v covers    *)
(*                         {f*v .. Min2(f*v+f-1, size-1)} (+ Pad iff the     *)
(*                         block is clipped by the END OF THE VOLUME)       *)
(*   Outcome = "Correct"     the assembled level = GlobalDown               *)
(*           = "Error"       some step raises                               *)
(*           = "SilentWrong" completes, but some voxel is unwritten or has  *)
(*                           the wrong provenance                           *)
(*   Property: Outcome # "SilentWrong" for every pair the scale generator   *)
(*   can emit; "Correct" => level = GlobalDown (value level: see            *)
(*   ValueLevel below, any block-wise downscaler D commutes).               *)
(* Interpretation notes: (1) the factor is the one the code derives from    *)
(* the two sizes (1 iff equal); a size-1 axis that the generator "halves"   *)
(* is therefore copied - identical to halving under edge padding.  (2) An   *)
(* exception on a pair whose outcome is Error is what the property asks.    *)
EXTENDS Naturals, Sequences, SequencesExt, FiniteSets, TLC

CONSTANT AssignRule       \* "strict" | "numpy"

Pad == 1000000            \* padding marker inside a provenance set
Unwritten == {2000000}    \* provenance of a never-assigned voxel

Min2(a, b) == IF a < b THEN a ELSE b
Max2(a, b) == IF a > b THEN a ELSE b
CeilDiv(a, b) == (a + b - 1) \div b

\* ---------------------------------------------------------------- oracle --
\* block of a downscaler that sees voxels [lo, hi) only, output index t (0-based)
Block(lo, hi, f, t) ==
  LET a == lo + f * t IN
  {a + d : d \in {x \in 0..(f - 1) : a + x < hi}}
    \cup (IF a + f - 1 >= hi THEN {Pad} ELSE {})

NewSize(c) == CeilDiv(c.size, c.f)
\* the whole previous level downscaled once (sequence indexed 1..NewSize)
GlobalDown(c) == [v \in 1..NewSize(c) |-> Block(0, c.size, c.f, v - 1)]

\* ---------------------------------------------------------------- design --
H(c) == c.o \div c.f
K(c) == c.n \div H(c)
NOld(c) == CeilDiv(c.size, c.o)
NNew(c) == CeilDiv(NewSize(c), c.n)
ChunkLo(c, i) == c.n * i
ChunkLen(c, i) == Min2(c.n * (i + 1), NewSize(c)) - c.n * i

OldLo(c, j) == c.o * j
OldHi(c, j) == Min2(c.o * (j + 1), c.size)
\* Downscaler.downscale applied to old chunk j alone
DownChunk(c, j) ==
  [t \in 1..CeilDiv(OldHi(c, j) - OldLo(c, j), c.f) |->
     Block(OldLo(c, j), OldHi(c, j), c.f, t - 1)]

Failed == [ok |-> FALSE, dest |-> << >>, why |-> "x"]
Fail(why) == [ok |-> FALSE, dest |-> << >>, why |-> why]

\* dest[lo:hi) <- Down(oldchunk(j))   (positions lo+1..hi, 1-based)
CopyPartInto(c, dest, lo, hi, j) ==
  IF j >= NOld(c) THEN Fail("missing")
  ELSE LET src == DownChunk(c, j)
           sl == hi - lo
       IN IF Len(src) = sl
          THEN [ok |-> TRUE, why |-> "",
                dest |-> [t \in 1..Len(dest) |->
                            IF t > lo /\ t <= hi THEN src[t - lo] ELSE dest[t]]]
          ELSE IF Len(src) = 1 /\ AssignRule = "numpy"
          THEN [ok |-> TRUE, why |-> "broadcast",
                dest |-> [t \in 1..Len(dest) |->
                            IF t > lo /\ t <= hi THEN src[1] ELSE dest[t]]]
          ELSE Fail("shape")

Empty(len) == [t \in 1..len |-> Unwritten]

PartA(c, i, dest) == CopyPartInto(c, dest, 0, Min2(H(c), Len(dest)), K(c) * i)
PartB(c, i, dest) == CopyPartInto(c, dest, H(c), Len(dest), K(c) * i + 1)
NeedsB(c, dest) == Len(dest) > H(c)

ChunkRes(c, i) ==
  IF H(c) = 0 THEN Fail("zerodiv")
  ELSE LET a == PartA(c, i, Empty(ChunkLen(c, i))) IN
       IF ~a.ok THEN a
       ELSE IF NeedsB(c, a.dest) THEN PartB(c, i, a.dest) ELSE a

AllOk(c) == \A i \in 0..(NNew(c) - 1) : ChunkRes(c, i).ok
\* the assembled level (only meaningful when AllOk)
Level(c) ==
  FoldLeft(LAMBDA acc, i : acc \o ChunkRes(c, i).dest, << >>,
           [x \in 1..NNew(c) |-> x - 1])

Outcome(c) ==
  IF ~AllOk(c) THEN "Error"
  ELSE IF Level(c) = GlobalDown(c) THEN "Correct" ELSE "SilentWrong"

HasUnwritten(c) == AllOk(c) /\ \E v \in 1..Len(Level(c)) : Level(c)[v] = Unwritten
UsesBroadcast(c) ==
  \E i \in 0..(NNew(c) - 1) :
     H(c) # 0 /\
     LET a == PartA(c, i, Empty(ChunkLen(c, i))) IN
     \/ a.why = "broadcast"
     \/ (a.ok /\ NeedsB(c, a.dest) /\ PartB(c, i, a.dest).why = "broadcast")

\* first reason of failure, for class reports
WhyError(c) ==
  IF AllOk(c) THEN ""
  ELSE ChunkRes(c, CHOOSE i \in 0..(NNew(c) - 1) :
                      ~ChunkRes(c, i).ok /\ \A j \in 0..(i - 1) : ChunkRes(c, j).ok).why

\* ------------------------------------------------- closed form (lemma) ----
\* Outcome for POWER-OF-TWO chunk sizes without enumerating voxels; TLC checks
\* ClosedFormAgrees on the whole MC space.  ScaleGen uses it on real infos
\* (sizes up to 10^9, chunks up to 2^24) - extending the lemma beyond the
\* checked bound is a stated assumption (the formula is scale free).
OutcomeCF(size, o, n, f) ==
  LET N == CeilDiv(size, f)
      h == o \div f
  IN IF h = 0 THEN "Error"
     ELSE IF n = h \/ n = 2 * h THEN "Correct"
     ELSE IF n < h THEN (IF N <= n THEN "Correct" ELSE "Error")
     ELSE \* n >= 4h: a new chunk needs more than two old chunks
          IF N <= 2 * h THEN "Correct"
          ELSE IF h = 1 /\ AssignRule = "numpy" THEN "SilentWrong" ELSE "Error"

IsPow2(x) == x \in {1, 2, 4, 8, 16, 32, 64, 128, 256, 512, 1024, 2048, 4096, 8192,
                    16384, 32768, 65536, 131072, 262144, 524288, 1048576, 2097152,
                    4194304, 8388608, 16777216, 33554432, 67108864, 134217728,
                    268435456, 536870912, 1073741824}

ClosedFormAgrees(c) == Outcome(c) = OutcomeCF(c.size, c.o, c.n, c.f)

\* the pairs the code was written for
Intended(c) == H(c) # 0 /\ (c.n = H(c) \/ c.n = 2 * H(c))

\* ---------------------------------------------- several axes (product) ----
\* any axis raising makes the run raise; otherwise any wrong axis makes the
\* data wrong
Combine(outs) ==
  IF \E a \in 1..Len(outs) : outs[a] = "Error" THEN "Error"
  ELSE IF \E a \in 1..Len(outs) : outs[a] = "SilentWrong" THEN "SilentWrong"
  ELSE "Correct"

\* ---------------------------------------------------------- value level ---
\* "Correct => the level equals the global downscale" for any block-wise
\* downscaler: value(v) = D(restriction of the old level to provenance(v)).
\* Stride = value at the smallest index; Sum2 = sum over the block, a padded
\* block counting its last voxel twice (edge padding).  Old voxel x holds
\* the value Val(x) (injective, not monotone).
Val(x) == (x * 37 + 11) % 101
SetMin(S) == CHOOSE x \in S : \A y \in S : x <= y
SetMax(S) == CHOOSE x \in S : \A y \in S : x >= y
DStride(P) == Val(SetMin(P \ {Pad}))
DSum2(P, f) == LET R == P \ {Pad} IN
               IF f = 1 THEN Val(SetMin(R))
               ELSE IF Pad \in P THEN 2 * Val(SetMax(R))
               ELSE Val(SetMin(R)) + Val(SetMax(R))
ValueLevel(c) ==
  Outcome(c) = "Correct" =>
     \A v \in 1..NewSize(c) :
        /\ DStride(Level(c)[v]) = Val(c.f * (v - 1))
        /\ DSum2(Level(c)[v], c.f) = DSum2(GlobalDown(c)[v], c.f)

\* ------------------------------------------------------- state machine ----
\* one action per critical section of the loop body
CONSTANT CfgSpace
VARIABLES cfg, i, part, dest, level
vars == <<cfg, i, part, dest, level>>

Init == /\ cfg \in CfgSpace
        /\ i = 0
        /\ part = "begin"
        /\ dest = << >>
        /\ level = << >>

BeginChunk == /\ part = "begin"
              /\ IF H(cfg) = 0 THEN part' = "error" /\ dest' = dest
                 ELSE part' = "A" /\ dest' = Empty(ChunkLen(cfg, i))
              /\ UNCHANGED <<cfg, i, level>>

CopyA == /\ part = "A"
         /\ LET r == PartA(cfg, i, dest) IN
            IF r.ok THEN dest' = r.dest /\ part' = (IF NeedsB(cfg, dest) THEN "B" ELSE "emit")
            ELSE dest' = dest /\ part' = "error"
         /\ UNCHANGED <<cfg, i, level>>

CopyB == /\ part = "B"
         /\ LET r == PartB(cfg, i, dest) IN
            IF r.ok THEN dest' = r.dest /\ part' = "emit"
            ELSE dest' = dest /\ part' = "error"
         /\ UNCHANGED <<cfg, i, level>>

EmitChunk == /\ part = "emit"
             /\ level' = level \o dest
             /\ dest' = << >>
             /\ IF i + 1 < NNew(cfg) THEN i' = i + 1 /\ part' = "begin"
                ELSE i' = i /\ part' = "done"
             /\ UNCHANGED cfg

Next == BeginChunk \/ CopyA \/ CopyB \/ EmitChunk
Spec == Init /\ [][Next]_vars

MachineOutcome ==
  IF part = "error" THEN "Error"
  ELSE IF level = GlobalDown(cfg) THEN "Correct" ELSE "SilentWrong"

\* ------------------------------------------------------------ invariants --
MachineAgrees == part \in {"done", "error"} => MachineOutcome = Outcome(cfg)
CorrectIsGlobal == (part = "done" /\ Outcome(cfg) = "Correct") => level = GlobalDown(cfg)
\* slices A and B cover the buffer: a run that completes wrote every voxel
NoUnwritten == part = "done" => \A v \in 1..Len(level) : level[v] # Unwritten
IntendedCorrect == Intended(cfg) => Outcome(cfg) = "Correct"
ClosedForm == part = "begin" /\ i = 0 => ClosedFormAgrees(cfg)
ValueLevelInv == part = "done" => ValueLevel(cfg)
\* the property on the WHOLE pair space: holds with AssignRule = "strict";
\* fails with "numpy" (pairs with half chunk 1 and new chunk >= 4 are
\* assembled by length-1 broadcast)
NoSilentWrong == part = "done" => Outcome(cfg) # "SilentWrong"
=============================================================================
