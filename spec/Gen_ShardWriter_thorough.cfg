SPECIFICATION GenSpec
CONSTANTS
  SlotPlacement = "bySlot"
  EmptySlotRead = "skip"
  CfgSpace <- GenCfgSpaceThorough
INVARIANT Emit
