SPECIFICATION Spec
CONSTANTS
  ValidatorBounds = "checked"
  MaxOps = 3
  Infos <- MCInfos
INVARIANT OnlyOnGridStored
INVARIANT ValidatorIsOnGrid
PROPERTY Independence
