---- MODULE MC_FaultStore ----
EXTENDS FaultStore
====
