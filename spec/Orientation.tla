---------------------------- MODULE Orientation ----------------------------
(* Anatomical orientation of slice stacks (C15).                            *)
(*                                                                          *)
(* ORACLE LAYER - written from the documentation of slices-to-precomputed   *)
(* (the epilog of its --help text), not from its code:                      *)
(*   "Each character represents the anatomical direction of an input axis:  *)
(*    the first character ... the left-to-right on-screen axis [column      *)
(*    index], the second ... the top-to-bottom on-screen axis [row index],  *)
(*    the third ... increasing slice numbers.  Each character ... the       *)
(*    direction that the axis POINTS TO: R right, L left, A anterior,       *)
(*    P posterior, S superior, I inferior.  In the output chunks, the axes  *)
(*    will be re-oriented accordingly to match RAS+ anatomical orientation."*)
(*   RAS+ : x grows towards Right, y towards Anterior, z towards Superior.  *)
(*   Hence an input axis labelled R / A / S runs along x / y / z with the   *)
(*   same sense, one labelled L / P / I runs along x / y / z reversed.      *)
(*   A code is a sequence of three one-letter strings, e.g. <<"R","I","A">> *)
(*   input indices are <<column, row, slice>>, output <<x, y, z>>, 0-based. *)
(*                                                                          *)
(* DESIGN LAYER - scripts/slices_to_precomputed.slices_to_raw_chunks:       *)
(*   tables AXIS_PERMUTATION_FOR_RAS / AXIS_INVERSION_FOR_RAS, groups of    *)
(*   `depth` slices (depth = chunk size along the slice axis), the group    *)
(*   read with a Python slice first:last:step (reversed stepping when the   *)
(*   slice axis is inverted), in-plane flips, moveaxis, one slab written    *)
(*   per group at slice-axis coordinates [first_in_order, last_in_order).   *)
(*   Deviation switch SliceStop \in {"none", "minus1"}:                     *)
(*     "minus1" the stop of the reversed slice is the NUMBER                *)
(*              size - last_in_order - 1, which is -1 for the final group   *)
(*              and means "up to the last element" to Python: the group is  *)
(*              empty (the code as found; repaired by d7dd4d8);                         *)
(*     "none"   the stop is omitted (None) when it would be -1.             *)
EXTENDS Integers, Sequences, FiniteSets

CONSTANTS SliceStop, CfgSpace

\* ---- oracle layer --------------------------------------------------------
Letters == {"R", "L", "A", "P", "S", "I"}
AxisOf(l) == IF l \in {"R", "L"} THEN 1 ELSE IF l \in {"A", "P"} THEN 2 ELSE 3
Positive(l) == l \in {"R", "A", "S"}      \* points the way the RAS+ axis grows

Codes == {c \in Letters \X Letters \X Letters : {AxisOf(c[1]), AxisOf(c[2]), AxisOf(c[3])} = {1, 2, 3}}

\* input axis (1 column, 2 row, 3 slice) that runs along output axis a
InAxis(code, a) == CHOOSE k \in 1..3 : AxisOf(code[k]) = a

OutSize(code, insize) == [a \in 1..3 |-> insize[InAxis(code, a)]]

Box(size) == (0..(size[1] - 1)) \X (0..(size[2] - 1)) \X (0..(size[3] - 1))

\* the input <<column, row, slice>> whose pixel must appear at output <<x,y,z>>
SrcIndex(code, insize, xyz) ==
  [k \in 1..3 |-> LET o == xyz[AxisOf(code[k])]
                  IN IF Positive(code[k]) THEN o ELSE insize[k] - 1 - o]

\* the output position of input pixel <<column, row, slice>>
DstIndex(code, insize, crs) ==
  [a \in 1..3 |-> LET k == InAxis(code, a)
                  IN IF Positive(code[k]) THEN crs[k] ELSE insize[k] - 1 - crs[k]]

\* letter semantics, stated on neighbours: one step along input axis k moves
\* the output position by one step along the axis the letter names, towards
\* the letter's direction, and along no other axis
StepSemantics(code, insize) ==
  \A crs \in Box(insize) : \A k \in 1..3 :
     crs[k] + 1 < insize[k] =>
       LET a == DstIndex(code, insize, crs)
           b == DstIndex(code, insize, [crs EXCEPT ![k] = @ + 1])
       IN \A d \in 1..3 :
            b[d] - a[d] = IF d = AxisOf(code[k]) THEN (IF Positive(code[k]) THEN 1 ELSE -1) ELSE 0

\* the pixel at the START of an axis labelled R/A/S lies at the low end of the
\* output axis; labelled L/P/I at the high end
EndSemantics(code, insize) ==
  \A k \in 1..3 :
     DstIndex(code, insize, <<0, 0, 0>>)[AxisOf(code[k])]
        = IF Positive(code[k]) THEN 0 ELSE insize[k] - 1

Bijection(code, insize) ==
  LET out == OutSize(code, insize) IN
  /\ \A p \in Box(out) : SrcIndex(code, insize, p) \in Box(insize)
                         /\ DstIndex(code, insize, SrcIndex(code, insize, p)) = p
  /\ \A q \in Box(insize) : DstIndex(code, insize, q) \in Box(out)
                            /\ SrcIndex(code, insize, DstIndex(code, insize, q)) = q
  /\ Cardinality(Box(out)) = Cardinality(Box(insize))

\* ---- design layer: the slice-window tiler ---------------------------------
VARIABLES cfg,      \* [code, insize, depth] - fixed at Init
          g,        \* index of the next slice group
          stored,   \* output voxel -> << >> (unwritten) | input <<column,row,slice>>
          count,    \* output voxel -> number of writes
          phase     \* "run" | "done" | "raised"

vars == <<cfg, g, stored, count, phase>>

Min2(a, b) == IF a < b THEN a ELSE b
CeilDiv(a, b) == (a - 1) \div b + 1

\* the code's tables (0-based axis numbers as in the code)
PermOf(l) == AxisOf(l) - 1                      \* AXIS_PERMUTATION_FOR_RAS
InvOf(l) == IF Positive(l) THEN 1 ELSE -1       \* AXIS_INVERSION_FOR_RAS

\* Python's seq[first:stop:step] for step = +-1 on a sequence of length n, as
\* the sequence of selected indices; stop = NoStop stands for an omitted stop
NoStop == -99999
PySlice(first, stop, step, n) ==
  IF step = 1
  THEN LET hi == IF stop = NoStop THEN n
                 ELSE IF stop < 0 THEN (IF stop + n < 0 THEN 0 ELSE stop + n)
                 ELSE Min2(stop, n)
           lo == IF first < 0 THEN (IF first + n < 0 THEN 0 ELSE first + n) ELSE Min2(first, n)
       IN [j \in 1..(IF hi > lo THEN hi - lo ELSE 0) |-> lo + j - 1]
  ELSE LET lo == IF stop = NoStop THEN -1
                 ELSE IF stop < 0 THEN (IF stop + n < 0 THEN -1 ELSE stop + n)
                 ELSE Min2(stop, n - 1)
           hi == IF first < 0 THEN (IF first + n < 0 THEN -1 ELSE first + n) ELSE Min2(first, n - 1)
       IN [j \in 1..(IF hi > lo THEN hi - lo ELSE 0) |-> hi - j + 1]

NSlices == cfg.insize[3]
NGroups == CeilDiv(NSlices, cfg.depth)

FirstInOrder == cfg.depth * g
LastInOrder == Min2(cfg.depth * (g + 1), NSlices)
Inverted == InvOf(cfg.code[3]) = -1

\* slice numbers loaded for group g, in block order
Window ==
  IF Inverted
  THEN LET first == NSlices - FirstInOrder - 1
           last == NSlices - LastInOrder - 1
           stop == IF SliceStop = "none" /\ last = -1 THEN NoStop ELSE last
       IN PySlice(first, stop, -1, NSlices)
  ELSE PySlice(FirstInOrder, LastInOrder, 1, NSlices)

\* block[:, :, ::inv_row, ::inv_col] then moveaxis: the element of the block at
\* <<j-th slice of the window, row r, column c>> lands at the output voxel
\* whose coordinate along axis perm(column) is the (possibly flipped) column,
\* along perm(row) the (possibly flipped) row, and along perm(slice) the
\* group's running position first_in_order + j
Flip(k, i) == IF InvOf(cfg.code[k]) = -1 THEN cfg.insize[k] - 1 - i ELSE i
OutPos(c, r, j) ==
  [a \in 1..3 |->
     IF a = PermOf(cfg.code[1]) + 1 THEN Flip(1, c)
     ELSE IF a = PermOf(cfg.code[2]) + 1 THEN Flip(2, r)
     ELSE FirstInOrder + j]

GroupStep ==
  /\ phase = "run"
  /\ LET w == Window IN
     IF Len(w) # LastInOrder - FirstInOrder
     THEN \* nothing (or too little) was loaded: the real tool raises here
          /\ phase' = "raised"
          /\ UNCHANGED <<g, stored, count>>
     ELSE LET slab == {<<c, r, j>> : c \in 0..(cfg.insize[1] - 1), r \in 0..(cfg.insize[2] - 1),
                                     j \in 0..(Len(w) - 1)}
              wr == {OutPos(e[1], e[2], e[3]) : e \in slab}
              src(p) == CHOOSE e \in slab : OutPos(e[1], e[2], e[3]) = p
          IN /\ stored' = [p \in DOMAIN stored |->
                             IF p \in wr THEN <<src(p)[1], src(p)[2], w[src(p)[3] + 1]>>
                             ELSE stored[p]]
             /\ count' = [p \in DOMAIN count |-> IF p \in wr THEN count[p] + 1 ELSE count[p]]
             /\ g' = g + 1
             /\ phase' = IF g + 1 < NGroups THEN "run" ELSE "done"
  /\ UNCHANGED cfg

Init ==
  /\ cfg \in CfgSpace
  /\ g = 0
  /\ stored = [p \in Box(OutSize(cfg.code, cfg.insize)) |-> << >>]
  /\ count = [p \in Box(OutSize(cfg.code, cfg.insize)) |-> 0]
  /\ phase = "run"

Next == GroupStep
Spec == Init /\ [][Next]_vars

\* ---- what TLC checks ------------------------------------------------------
\* oracle self-consistency (evaluated once per parameter point)
OracleSound ==
  g = 0 /\ phase = "run" =>
     /\ Bijection(cfg.code, cfg.insize)
     /\ StepSemantics(cfg.code, cfg.insize)
     /\ EndSemantics(cfg.code, cfg.insize)

\* Design => Oracle
NoRaise == phase # "raised"
NeverTwice == \A p \in DOMAIN count : count[p] <= 1
WindowCoversOnce ==
  phase = "done" =>
    \A p \in DOMAIN stored :
       /\ count[p] = 1
       /\ stored[p] = SrcIndex(cfg.code, cfg.insize, p)
=============================================================================
