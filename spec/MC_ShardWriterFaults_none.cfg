SPECIFICATION FSpec
CONSTANTS
  SlotPlacement = "bySlot"
  EmptySlotRead = "skip"
  Sticky = "none"
  CfgSpace <- QuickCfgSpace
INVARIANT NoSilentLoss
INVARIANT FaultFreeSame
