SPECIFICATION Spec
CONSTANTS
  SliceStop = "none"
INVARIANT Emit
