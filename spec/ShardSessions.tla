--------------------------- MODULE ShardSessions ---------------------------
(* Growth of the specification beyond the listed properties (DESIGN 9):      *)
(* several write SESSIONS on one sharded dataset and DUPLICATE stores inside *)
(* a session.  Design layer only - no property of the given list speaks      *)
(* about these histories, so a disagreement with the real code is DRIFT.     *)
(*                                                                           *)
(* What the code does (sharded_file_accessor.py):                            *)
(*  - a new accessor object starts with empty reorder buffers; on close it   *)
(*    REWRITES ("wb") the shard file of every shard it stored into, from     *)
(*    its own buffers only: chunks that an earlier session had put into the  *)
(*    same shard file are dropped; shard files it did not touch are kept;    *)
(*  - storing an identifier again in the same session raises RuntimeError    *)
(*    when the identifier was already appended (it is behind the counter),   *)
(*    and silently replaces the buffered bytes while it is still waiting.    *)
EXTENDS ShardWriter

VARIABLES sess,      \* number of the current session (1, 2, ...)
          everStored, \* position -> session in which it was last stored
          dupRes      \* outcome of the last duplicate store: "none" | "raised" | "replaced"
svars == <<vars, sess, everStored, dupRes>>

SInit == Init /\ sess = 1 /\ everStored = << >> /\ dupRes = "none"

Upd(f, k, v) == [q \in DOMAIN f \cup {k} |-> IF q = k THEN v ELSE f[q]]

SStore(p) == /\ Store(p)
             /\ everStored' = Upd(everStored, p, sess)
             /\ UNCHANGED <<sess, dupRes>>

\* duplicate store of a position already stored in THIS session
SDup(p) == /\ phase = "open" /\ p \in stored
           /\ LET id == IdOf(p)
                  m == ms[KeyOf(id)]
              IN dupRes' = IF id \in m.buf THEN "replaced" ELSE "raised"
           /\ UNCHANGED <<vars, sess, everStored>>

\* close: the files of the shards touched in this session are replaced
MergeFiles(old, new) ==
  LET names == {new[i].name : i \in 1..Len(new)}
      kept == SelectSeq(old, LAMBDA f : f.name \notin names)
  IN kept \o new
SClose == /\ phase = "open"
          /\ phase' = "closed"
          /\ files' = MergeFiles(files, BuildFiles(ms))
          /\ UNCHANGED <<cfg, stored, ms, sess, everStored, dupRes>>

SReopen == /\ phase = "closed"
           /\ phase' = "open"
           /\ ms' = << >>
           /\ stored' = {}
           /\ sess' = sess + 1
           /\ UNCHANGED <<cfg, files, everStored, dupRes>>

SNext == \/ \E p \in AllPos(cfg.grid) : SStore(p)
         \/ \E p \in AllPos(cfg.grid) : SDup(p)
         \/ SClose
         \/ (sess < 2 /\ SReopen)
SSpec == SInit /\ [][SNext]_svars

\* ---- what is retrievable after the last close ------------------------------
ShardNameOf(p) == ShardName(IdOf(p), cfg.pb, cfg.mb, cfg.sb)
\* last session that stored something into the shard file of p
LastTouch(p) ==
  LET S == {everStored[q] : q \in {r \in DOMAIN everStored : ShardNameOf(r) = ShardNameOf(p)}}
  IN IF S = {} THEN 0 ELSE CHOOSE s \in S : \A t \in S : t <= s
Visible == {p \in DOMAIN everStored : everStored[p] = LastTouch(p)}

\* design fact checked by TLC: a format-following reader finds exactly Visible
SessionVisibility ==
  phase = "closed" =>
    \A p \in AllPos(cfg.grid) :
       (SpecLookup(cfg, files, IdOf(p)).st = "found"
          /\ SpecLookup(cfg, files, IdOf(p)).size > 0) <=> p \in Visible
\* the files stay well formed over sessions
SessionsWellFormed ==
  phase = "closed" =>
    \A k \in 1..Len(files) : IsHex(files[k].name) /\ ShardClause(cfg, files[k], HexVal(files[k].name)) = "ok"
=============================================================================
