------------------------------ MODULE BitsNum ------------------------------
(* Exact numbers on top of Bits (little-endian bit sequences):               *)
(*   * a VALUE is a triple <<s, i, f>>: sign s (0 = plus, 1 = minus),         *)
(*     integer part i (Bits: little endian, no trailing zero), fraction part  *)
(*     f = fraction bits, MOST significant first (f[1] weighs 1/2), no        *)
(*     trailing zero.  value = (-1)^s * (i + 0.f).  Every finite IEEE float   *)
(*     and every 64-bit integer is such a triple; the harness obtains it from *)
(*     float.hex() / int without any decimal rounding.                        *)
(*   * a SIGNED INTEGER is a pair <<s, m>> (sign, magnitude bits), used for   *)
(*     sums of scaled voxel values (Downscale) and differences (Stats).       *)
EXTENDS Bits, Integers

Inc(b)    == Add(b, <<1>>)
IsOdd(b)  == b # << >> /\ b[1] = 1
Pow2B(n)  == [k \in 1..(n + 1) |-> IF k = n + 1 THEN 1 ELSE 0]      \* 2^n
Ones(n)   == [k \in 1..n |-> 1]                                      \* 2^n - 1
MaxI(a, b) == IF a >= b THEN a ELSE b
MinI(a, b) == IF a <= b THEN a ELSE b

RECURSIVE MulSmall(_, _)                \* b * k for a small natural k
MulSmall(b, k) ==
  IF k = 0 \/ b = << >> THEN << >>
  ELSE Add(IF k % 2 = 1 THEN b ELSE << >>, ShiftL(MulSmall(b, k \div 2), 1))

\* b rounded to p significant bits, ties to even (the integer -> IEEE float
\* conversion for p = 53 / 24 when no overflow occurs)
RoundSigBits(b, p) ==
  IF Len(b) <= p THEN b
  ELSE LET d == Len(b) - p
           kept == ShiftR(b, d)
           up == b[d] = 1 /\ ((\E j \in 1..(d - 1) : b[j] = 1) \/ kept[1] = 1)
       IN ShiftL(IF up THEN Add(kept, <<1>>) ELSE kept, d)

\* |a - b|
AbsDiff(a, b) == IF Leq(b, a) THEN Sub(a, b) ELSE Sub(b, a)

\* ---- fraction bits -------------------------------------------------------
NormFrac(f) == Norm(f)          \* no trailing zero
\* position of 0.f relative to one half
FracClass(f) ==
  LET g == NormFrac(f) IN
  IF g = << >> THEN "zero"
  ELSE IF g[1] = 0 THEN "below"
  ELSE IF Len(g) = 1 THEN "half" ELSE "above"

\* magnitude of (i + 0.f) rounded to an integer, ties to even
RoundMagHE(i, f) ==
  LET c == FracClass(f) IN
  IF c = "above" \/ (c = "half" /\ IsOdd(i)) THEN Inc(i) ELSE i

\* ---- values ---------------------------------------------------------------
Canon(v) ==
  LET i == Norm(v[2])
      f == NormFrac(v[3])
  IN <<IF i = << >> /\ f = << >> THEN 0 ELSE v[1], i, f>>
IsValue(v) == /\ Len(v) = 3 /\ v[1] \in {0, 1}
              /\ \A k \in 1..Len(v[2]) : v[2][k] \in Bit
              /\ \A k \in 1..Len(v[3]) : v[3][k] \in Bit
\* v * 2^e as an integer magnitude, e = number of fraction bits of v
ScaledMag(v) == Norm(Reverse(NormFrac(v[3])) \o Norm(v[2]))
\* the value m / 2^e (m a magnitude) with sign s
FromScaledMag(s, m, e) ==
  Canon(<<s, ShiftR(m, e), Reverse(Pad(Low(m, e), e))>>)

\* ---- signed integers <<s, m>> ---------------------------------------------
SCanon(a) == LET m == Norm(a[2]) IN <<IF m = << >> THEN 0 ELSE a[1], m>>
SAdd(a, b) ==
  IF a[1] = b[1] THEN SCanon(<<a[1], Add(a[2], b[2])>>)
  ELSE IF Leq(b[2], a[2]) THEN SCanon(<<a[1], Sub(a[2], b[2])>>)
  ELSE SCanon(<<b[1], Sub(b[2], a[2])>>)
\* a <= b
SLeq(a, b) ==
  LET x == SCanon(a)
      y == SCanon(b)
  IN IF x[1] # y[1] THEN x[1] = 1
     ELSE IF x[1] = 0 THEN Leq(x[2], y[2]) ELSE Leq(y[2], x[2])
SLess(a, b) == SLeq(a, b) /\ SCanon(a) # SCanon(b)
=============================================================================
