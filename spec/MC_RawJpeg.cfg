SPECIFICATION Spec
CONSTANTS
  JpegLoad = "guarded"
INVARIANT JpegTotal
INVARIANT JpegValidAccepted
INVARIANT JpegDoneShape
INVARIANT JpegMacro
INVARIANT RawRule
