SPECIFICATION MCSpec
CONSTANTS
  CopyPolicy = "reuseWhenPossible"
  CfgSpace = {}
INVARIANT Encoding
INVARIANT Nearest
INVARIANT TiesToEven
INVARIANT Saturates
INVARIANT IdentityWhenRepresentable
INVARIANT Monotone
INVARIANT Idempotent
INVARIANT OverflowFlag
INVARIANT InTypeIsRep
INVARIANT Works
INVARIANT PreserveRespected
INVARIANT OutputIsConvert
