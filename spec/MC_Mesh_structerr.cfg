SPECIFICATION Spec
CONSTANTS
  BoundCheck = "ge"
  ShortHeaderExc = "structError"
  Pairs = FALSE
  FlipRule = "detNegative"
INVARIANT ReaderMeetsOracle
INVARIANT BoundsSound
INVARIANT RoundTripModel
INVARIANT WindingModel
