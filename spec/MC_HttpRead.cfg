SPECIFICATION Spec
CONSTANTS
  LengthCheck = TRUE
  StatusCheck = TRUE
  MaxFaults = 2
INVARIANT NoWrongBytes
INVARIANT FaultFreeEqualsLocal
INVARIANT FaultIsError
