SPECIFICATION Spec
CONSTANTS
  BoundCheck = "ge"
  ShortHeaderExc = "meshError"
  Pairs = FALSE
  FlipRule = "detNegative"
INVARIANT ReaderMeetsOracle
INVARIANT BoundsSound
INVARIANT RoundTripModel
INVARIANT WindingModel
