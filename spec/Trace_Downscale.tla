-------------------------- MODULE Trace_Downscale --------------------------
(* C->S (and the verdict half of S->C) for C07.  One case = one call of a    *)
(* REAL downscaler (harness/downscale_driver.py): the fields of a Downscale  *)
(* case (method, f, pad, ov, kind, enc, shape, data) plus what the call did: *)
(*   dtype / odtype : data type names of input and result,                   *)
(*   exc            : exception class or "",                                 *)
(*   oshape, out    : shape and flat content (C order) of the result, in the *)
(*                    encoding of the input; a result element that is not a  *)
(*                    multiple of the case's unit is <<2, <<1>>>>.           *)
(* Clauses, in this order: oracle:Raised (supported factors must work),      *)
(* oracle:OutShape, oracle:DType, oracle:InRange (some element outside the   *)
(* range of its contributors: overflow / wrap), then the statistic itself    *)
(* oracle:BlockMean / oracle:Majority / oracle:Stride.  pos = first bad      *)
(* element (1-based flat index).                                             *)
EXTENDS Downscale, Json, IOUtils, TLC

Cases == ndJsonDeserialize(IOEnv.TRACE_FILE)
VARIABLE tid

OutVal(c, o) == IF c.enc = "nat" THEN <<0, FromNat(c.out[o])>>
                ELSE IF c.out[o][1] = 2 THEN c.out[o] ELSE SCanon(c.out[o])
MinOf(S) == CHOOSE o \in S : \A q \in S : o <= q

Verdict(c) ==
  IF ~Supported(c) \/ Len(c.data) # NVox(c.shape) THEN <<"machinery:BadCase", 0>>
  ELSE IF c.exc # "" THEN <<"oracle:Raised", 0>>
  ELSE IF c.oshape # OutShape(c.shape, c.f) THEN <<"oracle:OutShape", 0>>
  ELSE IF c.odtype # c.dtype THEN <<"oracle:DType", 0>>
  ELSE IF Len(c.out) # NVox(c.oshape) THEN <<"machinery:OutputLength", 0>>
  ELSE LET idx == 1..NVox(c.oshape)
           P(o) == Coord(c.oshape, o)
           inexact == {o \in idx : ~MeanIsExact(MeanContrib(c, P(o)))}
           badRange == {o \in idx : c.out[o][1] = 2 \/ ~InRange(c, P(o), OutVal(c, o))}
           badStat == {o \in idx : OutVal(c, o) # Expected(c, P(o))}
       IN IF c.kind = "float" /\ c.method = "average" /\ inexact # {}
          THEN <<"machinery:FloatMeanNotExact", MinOf(inexact)>>
          ELSE IF c.enc = "sm" /\ badRange # {} THEN <<"oracle:InRange", MinOf(badRange)>>
          ELSE IF c.enc = "nat" /\ {o \in idx : ~InRange(c, P(o), OutVal(c, o))} # {}
               THEN <<"oracle:InRange", MinOf({o \in idx : ~InRange(c, P(o), OutVal(c, o))})>>
          ELSE IF badStat # {} THEN <<StatClause(c), MinOf(badStat)>>
          ELSE <<"ok", 0>>

\* The verdict is computed on the SUCCESSOR state (done = TRUE): TLC generates
\* initial states in one thread but explores successors with all workers.
VARIABLE done
TraceInit == tid \in 1..Len(Cases) /\ done = FALSE /\ cfg = 0
TraceNext == ~done /\ done' = TRUE /\ UNCHANGED <<tid, cfg>>
TraceSpec == TraceInit /\ [][TraceNext]_<<tid, done, cfg>>

Emit == done =>
        LET v == Verdict(Cases[tid]) IN
        PrintT(<<"VERDICT", tid, IF v[1] = "ok" THEN "ok" ELSE "bad", v[1], v[2]>>)
=============================================================================
