-------------------------- MODULE Trace_Downscale --------------------------
(* C->S (and the verdict half of S->C) for C07.  One case = one call of a    *)
(* REAL downscaler (harness/downscale_driver.py): the fields of a Downscale  *)
(* case (method, f, pad, ov, kind, enc, shape, data) plus what the call did: *)
(*   dtype / odtype : data type names of input and result,                   *)
(*   exc            : exception class or "",                                 *)
(*   oshape, out    : shape and flat content (C order) of the result, in the *)
(*                    encoding of the input; a result element that is not a  *)
(*                    multiple of the case's unit is <<2, <<1>>>>.           *)
(*   itype          : "image" | "segmentation" - the type attribute of the   *)
(*                    info the downscaler was requested for.  method may be  *)
(*                    "auto" (get_downscaler("auto", info, options)): the    *)
(*                    documented selection rule - "average" for images,      *)
(*                    "stride" for segmentations - is applied HERE (Eff), and *)
(*                    the configured outside value belongs to the selected   *)
(*                    averaging method just as with the explicit name.       *)
(* Clauses, in this order: oracle:Raised (supported factors must work),      *)
(* oracle:OutShape, oracle:DType, oracle:InRange (some element outside the   *)
(* range of its contributors: overflow / wrap), then the statistic itself    *)
(* oracle:BlockMean / oracle:Majority / oracle:Stride.                       *)
(*                                                                           *)
(* OUTSIDE VALUE OUTSIDE THE RANGE OF AN INTEGER DATA TYPE (OvInType false): *)
(* the exact mean of a border block may then not be representable in the     *)
(* unchanged data type, so the statement's clauses cannot all hold; the      *)
(* weaker reading is adopted: an exception is accepted (oracle:Raised is not *)
(* evaluated), BlockMean is NOT demanded, only OutShape, DType and InRange   *)
(* ("never overflow or wrap, between the minimum and maximum of the          *)
(* contributing values" - the outside value being a contributor).            *)
(*                                                                           *)
(* pos = first bad element (1-based flat index); for a failing InRange /     *)
(* BlockMean clause of the averaging method on integer data pos is           *)
(* <<first bad element, class>> where class (DevClass) is a structural fact  *)
(* of the deviation computed here and used ONLY for known-finding matching:  *)
(*   "near"  every wrong element o satisfies |out - mean| <= 1 or            *)
(*           |out - mean| * 2^51 <= max |contributor of o|  (a few ULPs of a *)
(*           53-bit work type: relative error <= 2^-51),                     *)
(*   "gross" some wrong element is farther away (wrap-around / overflow) or  *)
(*           is not a value at all.                                          *)
(* (When the outside value is not a value of the type only InRange is judged *)
(* and the class is taken from the distance to the interval [min, max] of    *)
(* the contributors instead of the distance to the mean.)                    *)
EXTENDS Downscale, Json, IOUtils, TLC

Cases == ndJsonDeserialize(IOEnv.TRACE_FILE)
VARIABLE tid

OutVal(c, o) == IF c.enc = "nat" THEN <<0, FromNat(c.out[o])>>
                ELSE IF c.out[o][1] = 2 THEN c.out[o] ELSE SCanon(c.out[o])
MinOf(S) == CHOOSE o \in S : \A q \in S : o <= q

\* ---- documented method selection of "auto" (oracle) -------------------------
Eff(c) == IF c.method # "auto" THEN c
          ELSE [c EXCEPT !.method = IF c.itype = "image" THEN "average" ELSE "stride"]

\* ---- is the outside value a value of the (integer) data type? --------------
TypeBitsOf(dt) == IF dt = "uint8" THEN 8 ELSE IF dt = "uint16" THEN 16
                  ELSE IF dt = "uint32" THEN 32 ELSE 64
OvInType(c) ==
  \/ c.method # "average" \/ c.pad # "const" \/ c.kind = "float"
  \/ LET v == Val(c, c.ov) IN v[1] = 0 /\ Len(ShiftR(v[2], UBits(c))) <= TypeBitsOf(c.dtype)

\* ---- class of a deviation from the exact mean (known-finding matching only) -
SNeg(a) == SCanon(<<1 - a[1], a[2]>>)
MaxMag(vals) == LET i == CHOOSE i \in 1..Len(vals) : \A j \in 1..Len(vals) : Leq(vals[j][2], vals[i][2])
                IN vals[i][2]
NearMean(c, p, out) ==
  /\ out[1] # 2
  /\ LET err == SAdd(out, SNeg(BlockMean(c, p)))[2]
     IN Leq(err, <<1>>) \/ Leq(ShiftL(err, 51), MaxMag(MeanContrib(c, p)))
DevClass(c, bad) ==
  IF \A o \in bad : NearMean(c, Coord(c.oshape, o), OutVal(c, o)) THEN "near" ELSE "gross"

\* outside value not a value of the type (only InRange is judged): distance to the
\* interval [min, max] of the contributors instead of the distance to the mean
NearRange(c, p, out) ==
  /\ out[1] # 2
  /\ LET vals == MeanContrib(c, p)
         lo == SMin(vals)
         hi == SMax(vals)
         dist == IF SLess(out, lo) THEN SAdd(lo, SNeg(out))[2]
                 ELSE IF SLess(hi, out) THEN SAdd(out, SNeg(hi))[2] ELSE << >>
     IN Leq(dist, <<1>>) \/ Leq(ShiftL(dist, 51), MaxMag(vals))
RangeClass(c, bad) ==
  IF \A o \in bad : NearRange(c, Coord(c.oshape, o), OutVal(c, o)) THEN "near" ELSE "gross"

VerdictE(c) ==
  IF ~Supported(c) \/ Len(c.data) # NVox(c.shape) THEN <<"machinery:BadCase", 0>>
  ELSE IF c.exc # "" THEN (IF OvInType(c) THEN <<"oracle:Raised", 0>> ELSE <<"ok", 0>>)
  ELSE IF c.oshape # OutShape(c.shape, c.f) THEN <<"oracle:OutShape", 0>>
  ELSE IF c.odtype # c.dtype THEN <<"oracle:DType", 0>>
  ELSE IF Len(c.out) # NVox(c.oshape) THEN <<"machinery:OutputLength", 0>>
  ELSE LET idx == 1..NVox(c.oshape)
           P(o) == Coord(c.oshape, o)
           inexact == {o \in idx : ~MeanIsExact(MeanContrib(c, P(o)))}
           badRange == {o \in idx : (c.enc = "sm" /\ c.out[o][1] = 2) \/ ~InRange(c, P(o), OutVal(c, o))}
           badStat == IF OvInType(c) THEN {o \in idx : OutVal(c, o) # Expected(c, P(o))} ELSE {}
           pos(S) == IF c.method = "average" /\ c.kind = "int"
                     THEN <<MinOf(S), IF OvInType(c) THEN DevClass(c, badStat) ELSE RangeClass(c, badRange)>>
                     ELSE MinOf(S)
       IN IF c.kind = "float" /\ c.method = "average" /\ inexact # {}
          THEN <<"machinery:FloatMeanNotExact", MinOf(inexact)>>
          ELSE IF badRange # {} THEN <<"oracle:InRange", pos(badRange)>>
          ELSE IF badStat # {} THEN <<StatClause(c), pos(badStat)>>
          ELSE <<"ok", 0>>
Verdict(c) == VerdictE(Eff(c))

\* The verdict is computed on the SUCCESSOR state (done = TRUE): TLC generates
\* initial states in one thread but explores successors with all workers.
VARIABLE done
TraceInit == tid \in 1..Len(Cases) /\ done = FALSE /\ cfg = 0
TraceNext == ~done /\ done' = TRUE /\ UNCHANGED <<tid, cfg>>
TraceSpec == TraceInit /\ [][TraceNext]_<<tid, done, cfg>>

Emit == done =>
        LET v == Verdict(Cases[tid]) IN
        PrintT(<<"VERDICT", tid, IF v[1] = "ok" THEN "ok" ELSE "bad", v[1], v[2]>>)
=============================================================================
