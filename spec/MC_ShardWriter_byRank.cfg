SPECIFICATION Spec
CONSTANTS
  SlotPlacement = "byRank"
  EmptySlotRead = "skip"
  CfgSpace <- MCCfgSpace
INVARIANT OrderIndependent
INVARIANT BufferSound
INVARIANT ClosedWellFormed
INVARIANT ReadBack
INVARIANT NeverStored
INVARIANT OwnReaderAgrees
PROPERTY Monotone
