------------------------------ MODULE MC_CSeg ------------------------------
(* Bounded instance for model checking CSeg (use M).                         *)
(*                                                                           *)
(* One behaviour = choose parameters and an array (Init), run the RELATIONAL *)
(* encoder block by block (any table order, optional sharing of identical    *)
(* tables, both placements of table/values, widths above the minimal one,    *)
(* either extreme index for padding), then either parse the finished buffer  *)
(* with the decoder automaton, or first apply one field mutation             *)
(* (MutPoints) and parse the mutant.                                         *)
(*                                                                           *)
(* Invariants:                                                               *)
(*  EncodingWellFormed, EncodingValid, EncodingDecodes :                     *)
(*     IsEncodingOf(buf, arr)  =>  WellFormed /\ Valid /\ CSegDecode = arr   *)
(*     (the oracle is not vacuous: it accepts EVERY legal encoding and       *)
(*      recovers the array);                                                 *)
(*  ParseTotal        : the automaton ends in Done or Error, never Crash     *)
(*                      (must FAIL with ChannelSlice = "next_unchecked");    *)
(*  ParseAgrees       : Valid(buf) => Done /\ out = CSegDecode(buf), for     *)
(*                      unmutated AND mutated buffers (valid data is never   *)
(*                      rejected, and decoded as the format says);           *)
(*  ParseComplete     : Done => every voxel was written;                     *)
(*  MacroEqualsSteps  : the fold ParseOutcome used by Trace_CSeg equals the  *)
(*                      stepwise automaton.                                  *)
EXTENDS CSeg

CONSTANT CfgSpace      \* overridden in the .cfg files

VARIABLES cfg, arr, enc, ech, eb, phase, mut, B, st
vars == <<cfg, arr, enc, ech, eb, phase, mut, B, st>>

LabelPool(wpl) ==
  IF wpl = 1 THEN << <<1, 0>>, <<0, 1>>, <<65535, 65535>> >>
  ELSE << <<7, 0, 0, 0>>, <<0, 0, 1, 0>>, <<65535, 65535, 65535, 65535>> >>
NLabels(c) == c.C * NVox(c)
ArrOf(c, f) == FlattenSeq([v \in 1..NLabels(c) |-> LabelPool(c.wpl)[f[v] + 1]])
\* arrs = "all": every array over K labels; "ramp": two fixed patterns
ArrFuns(c) ==
  IF c.arrs = "all" THEN [1..NLabels(c) -> 0..(c.K - 1)]
  ELSE {[v \in 1..NLabels(c) |-> (v - 1) % c.K],
        [v \in 1..NLabels(c) |-> ((v - 1) \div 2) % c.K]}

NoBuf == [n |-> 0, h |-> << >>]
NoParse == [pc |-> "Idle"]
NoMut == [f |-> FieldRec("none", 0, 0, 0), d |-> Abs(0)]

Init ==
  /\ cfg \in CfgSpace
  /\ arr \in {ArrOf(cfg, f) : f \in ArrFuns(cfg)}
  /\ enc = EncInit(cfg) /\ ech = 0 /\ eb = 0 - 1
  /\ phase = "enc" /\ mut = NoMut /\ B = NoBuf /\ st = NoParse

\* ---- relational encoder ---------------------------------------------------
StartChannel ==
  /\ phase = "enc" /\ eb = 0 - 1
  /\ enc' = EncStartChannel(enc, cfg, ech)
  /\ eb' = 0
  /\ UNCHANGED <<cfg, arr, ech, phase, mut, B, st>>

ChanOff == enc.h[2 * ech + 1] + 65536 * enc.h[2 * ech + 2]

EncodeBlock ==
  /\ phase = "enc" /\ eb >= 0
  /\ \E t \in SetToSeqs(BlockLabels(arr, cfg, ech, eb)), share \in BOOLEAN :
       /\ share => \E k \in 1..Len(enc.tabs) : enc.tabs[k].t = t
       /\ LET bits == WidthFor(Len(t), cfg.up)
              padv == IF cfg.padlast THEN Len(t) - 1 ELSE 0
              e2 == EncBlock(enc, arr, cfg, ech, eb, ChanOff, t, share, cfg.tfirst, bits, padv)
          IN /\ enc' = e2
             /\ IF eb + 1 < NBlocks(cfg)
                THEN eb' = eb + 1 /\ UNCHANGED <<ech, phase, B>>
                ELSE IF ech + 1 < cfg.C
                THEN eb' = 0 - 1 /\ ech' = ech + 1 /\ UNCHANGED <<phase, B>>
                ELSE eb' = 0 /\ ech' = ech /\ phase' = "encoded" /\ B' = BufOf(e2.h)
  /\ UNCHANGED <<cfg, arr, mut, st>>

\* ---- hand the buffer to the reader, possibly mutated ----------------------
StartParse ==
  /\ phase = "encoded"
  /\ phase' = "parse" /\ st' = ParseInit(cfg)
  /\ UNCHANGED <<cfg, arr, enc, ech, eb, mut, B>>

MutateThenParse ==
  /\ phase = "encoded" /\ cfg.mutate
  /\ \E m \in MutPoints(B, cfg) :
       /\ B' = ApplyMut(B, cfg, m)
       /\ mut' = m
  /\ phase' = "parse" /\ st' = ParseInit(cfg)
  /\ UNCHANGED <<cfg, arr, enc, ech, eb>>

\* ---- decoder automaton: one action per stage and exit (for -coverage) -----
Stage(pc, wantErr) ==
  /\ phase = "parse" /\ st.pc = pc
  /\ (ExitOf(B, cfg, st) # "") = wantErr
  /\ st' = Step(B, cfg, st)
  /\ UNCHANGED <<cfg, arr, enc, ech, eb, phase, mut, B>>

ReadChannelTable_ok  == Stage("ReadChannelTable", FALSE)
ReadChannelTable_err == Stage("ReadChannelTable", TRUE)
ChannelStart_ok      == Stage("ChannelStart", FALSE)
ChannelStart_err     == Stage("ChannelStart", TRUE)
BlockHeader_ok       == Stage("BlockHeader", FALSE)
BlockHeader_crash    == Stage("BlockHeader", TRUE)
CheckBits_ok         == Stage("CheckBits", FALSE)
CheckBits_err        == Stage("CheckBits", TRUE)
LocateTable_ok       == Stage("LocateTable", FALSE)
LocateValues_ok      == Stage("LocateValues", FALSE)
LocateValues_err     == Stage("LocateValues", TRUE)
Lookup_ok            == Stage("Lookup", FALSE)
Lookup_err           == Stage("Lookup", TRUE)
Emit_ok              == Stage("Emit", FALSE)

Next ==
  \/ StartChannel \/ EncodeBlock \/ StartParse \/ MutateThenParse
  \/ ReadChannelTable_ok \/ ReadChannelTable_err \/ ChannelStart_ok \/ ChannelStart_err
  \/ BlockHeader_ok \/ BlockHeader_crash \/ CheckBits_ok \/ CheckBits_err
  \/ LocateTable_ok \/ LocateValues_ok \/ LocateValues_err
  \/ Lookup_ok \/ Lookup_err \/ Emit_ok

Spec == Init /\ [][Next]_vars

\* ---- invariants -----------------------------------------------------------
EncodingWellFormed == phase = "encoded" => WFClause(B, cfg) = "ok"
EncodingValid      == phase = "encoded" => ValidB(B, cfg)
EncodingDecodes    == phase = "encoded" => CSegDecodeB(B, cfg) = arr
Parsed == phase = "parse" /\ Terminal(st)
ParseTotal    == Parsed => st.pc # "Crash"
ParseAgrees   == Parsed /\ ValidB(B, cfg) => st.pc = "Done" /\ st.out = CSegDecodeB(B, cfg)
ParseComplete == Parsed /\ st.pc = "Done" =>
                   Len(st.out) = ArrLen(cfg) /\ \A k \in 1..Len(st.out) : st.out[k] # Unset
MacroEqualsSteps == Parsed => ParseOutcome(B, cfg) = Outcome(st)
\* an unmutated encoding is always read back
UnmutatedAccepted == Parsed /\ mut = NoMut => st.pc = "Done" /\ st.out = arr

\* ---- bounded parameter spaces ----------------------------------------------
Base(C, X, Y, Z, bx, by, bz, wpl) ==
  [C |-> C, X |-> X, Y |-> Y, Z |-> Z, bx |-> bx, by |-> by, bz |-> bz, wpl |-> wpl]
With(b, K, up, tfirst, padlast, arrs, mutate) ==
  [C |-> b.C, X |-> b.X, Y |-> b.Y, Z |-> b.Z, bx |-> b.bx, by |-> b.by, bz |-> b.bz,
   wpl |-> b.wpl, K |-> K, up |-> up, tfirst |-> tfirst, padlast |-> padlast,
   arrs |-> arrs, mutate |-> mutate]
D2 == 1..2
Bases(Cs, Ws) == {Base(C, X, Y, Z, bx, by, bz, w) :
                    C \in Cs, X \in D2, Y \in D2, Z \in D2, bx \in D2, by \in D2, bz \in D2, w \in Ws}
\* number of labels by total voxel count (keeps 3 labels for <= 4 voxels)
KFor(b) == IF b.C * b.X * b.Y * b.Z <= 4 THEN 3 ELSE 2
Small(b, n) == b.C * b.X * b.Y * b.Z <= n

\* encoder family x every array (no mutation)
EncSpaceFull ==
  {With(b, KFor(b), up, tf, pl, "all", FALSE) :
     b \in {x \in Bases({1, 2}, {1, 2}) : Small(x, 8)},
     up \in {0, 1, 5}, tf \in BOOLEAN, pl \in BOOLEAN}
EncSpaceQuick ==
  {With(b, KFor(b), up, tf, tf, "all", FALSE) :
     b \in {x \in Bases({1, 2}, {1, 2}) : Small(x, 4)} \cup
           {x \in Bases({1}, {1}) : x.X * x.Y * x.Z = 8 /\ x.bx = x.by /\ x.by # x.bz},
     up \in {0, 1}, tf \in BOOLEAN}
\* mutants of a few encodings
MutBasesFull ==
  {Base(1, 2, 2, 2, 2, 2, 2, 1), Base(2, 2, 2, 1, 1, 2, 1, 1), Base(2, 2, 1, 2, 2, 1, 1, 2),
   Base(1, 2, 2, 2, 1, 1, 2, 2), Base(2, 1, 1, 2, 1, 1, 1, 1), Base(2, 2, 2, 2, 2, 2, 2, 1),
   Base(1, 2, 1, 1, 2, 2, 2, 1), Base(2, 2, 2, 2, 2, 1, 2, 2)}
MutSpaceFull ==
  {With(b, 3, up, TRUE, FALSE, "ramp", TRUE) : b \in MutBasesFull, up \in {0, 2, 5}}
MutSpaceQuick ==
  {With(b, 3, up, TRUE, FALSE, "ramp", TRUE) :
     b \in {Base(2, 2, 2, 1, 1, 2, 1, 1), Base(1, 2, 2, 2, 2, 2, 2, 2)}, up \in {0, 5}}

MCSpaceFull == EncSpaceFull \cup MutSpaceFull
MCSpaceQuick == EncSpaceQuick \cup MutSpaceQuick
=============================================================================
