------------------------------ MODULE MC_CSeg ------------------------------
(* Bounded instance for model checking CSeg (use M).                         *)
(*                                                                           *)
(* One behaviour = choose parameters and an array (Init), run the RELATIONAL *)
(* encoder block by block (any table order, optional sharing of identical    *)
(* tables, both placements of table/values, widths above the minimal one,    *)
(* either extreme index for padding), then either parse the finished buffer  *)
(* with the decoder automaton, or first apply one field mutation             *)
(* (MutPoints) and parse the mutant.                                         *)
(*                                                                           *)
(* Invariants:                                                               *)
(*  EncodingWellFormed, EncodingValid, EncodingDecodes :                     *)
(*     IsEncodingOf(buf, arr)  =>  WellFormed /\ Valid /\ CSegDecode = arr   *)
(*     (the oracle is not vacuous: it accepts EVERY legal encoding and       *)
(*      recovers the array);                                                 *)
(*  EncodingAccepted  : the decoder automaton reads every legal encoding    *)
(*                      back (whole run folded into one evaluation);         *)
(*  ParseTotal        : the automaton ends in Done or Error, never Crash     *)
(*                      (must FAIL with ChannelSlice = "next_unchecked");    *)
(*  ParseAgrees       : Valid(buf) => Done /\ out = CSegDecode(buf), for     *)
(*                      unmutated AND mutated buffers (valid data is never   *)
(*                      rejected, and decoded as the format says);           *)
(*  ParseComplete     : Done => every voxel was written;                     *)
(*  MacroEqualsSteps  : the fold ParseOutcome used by Trace_CSeg equals the  *)
(*                      stepwise automaton.                                  *)
EXTENDS CSegScope

CONSTANT CfgSpace      \* overridden in the .cfg files

VARIABLES cfg, arr, enc, ech, eb, phase, mut, B, st
vars == <<cfg, arr, enc, ech, eb, phase, mut, B, st>>

\* arrs = "all": every array over K labels; "ramp": two fixed patterns
ArrFuns(c) ==
  IF c.arrs = "all" THEN [1..NLabels(c) -> 0..(c.K - 1)] ELSE RampFuns(c, c.K)

NoBuf == [n |-> 0, h |-> << >>]
NoParse == [pc |-> "Idle"]
NoMut == [f |-> FieldRec("none", 0, 0, 0), d |-> Abs(0)]

Init ==
  /\ cfg \in CfgSpace
  /\ arr \in {ArrOf(cfg, f) : f \in ArrFuns(cfg)}
  /\ enc = EncInit(cfg) /\ ech = 0 /\ eb = 0 - 1
  /\ phase = "enc" /\ mut = NoMut /\ B = NoBuf /\ st = NoParse

\* ---- relational encoder ---------------------------------------------------
StartChannel ==
  /\ phase = "enc" /\ eb = 0 - 1
  /\ enc' = EncStartChannel(enc, cfg, ech)
  /\ eb' = 0
  /\ UNCHANGED <<cfg, arr, ech, phase, mut, B, st>>

ChanOff == enc.h[2 * ech + 1] + 65536 * enc.h[2 * ech + 2]

\* any order of the block's labels; in the mutate configurations only the
\* sorted one (there the subject is the reader, not the encoder family)
TableOrders(S) == IF cfg.mutate THEN {SetToSortSeq(S, LabelLess)} ELSE SetToSeqs(S)

EncodeBlock ==
  /\ phase = "enc" /\ eb >= 0
  /\ \E t \in TableOrders(BlockLabels(arr, cfg, ech, eb)), share \in BOOLEAN :
       /\ share => \E k \in 1..Len(enc.tabs) : enc.tabs[k].t = t
       /\ cfg.mutate => (share <=> \E k \in 1..Len(enc.tabs) : enc.tabs[k].t = t)
       /\ LET bits == WidthFor(Len(t), cfg.up)
              padv == IF cfg.padlast THEN Len(t) - 1 ELSE 0
              e2 == EncBlock(enc, arr, cfg, ech, eb, ChanOff, t, share, cfg.tfirst, bits, padv)
          IN /\ enc' = e2
             /\ IF eb + 1 < NBlocks(cfg)
                THEN eb' = eb + 1 /\ UNCHANGED <<ech, phase, B>>
                ELSE IF ech + 1 < cfg.C
                THEN eb' = 0 - 1 /\ ech' = ech + 1 /\ UNCHANGED <<phase, B>>
                ELSE eb' = 0 /\ ech' = ech /\ phase' = "encoded" /\ B' = BufOf(e2.h)
  /\ UNCHANGED <<cfg, arr, mut, st>>

\* ---- hand the buffer to the reader, possibly mutated ----------------------
\* (stepwise only in the mutate configurations; everywhere else the unmutated
\* buffer is parsed in one go by EncodingAccepted below - same automaton, see
\* MacroEqualsSteps - which keeps the state count in budget)
StartParse ==
  /\ phase = "encoded" /\ cfg.mutate
  /\ phase' = "parse" /\ st' = ParseInit(cfg)
  /\ UNCHANGED <<cfg, arr, enc, ech, eb, mut, B>>

MutateThenParse ==
  /\ phase = "encoded" /\ cfg.mutate
  /\ \E m \in MutPoints(B, cfg) :
       /\ B' = ApplyMut(B, cfg, m)
       /\ mut' = m
  /\ phase' = "parse" /\ st' = ParseInit(cfg)
  /\ UNCHANGED <<cfg, arr, enc, ech, eb>>

\* ---- decoder automaton: one action per stage and exit (for -coverage) -----
Stage(wantErr) ==
  /\ (ExitOf(B, cfg, st) # "") = wantErr
  /\ st' = Step(B, cfg, st)
  /\ UNCHANGED <<cfg, arr, enc, ech, eb, phase, mut, B>>

ReadChannelTable_ok ==
  /\ phase = "parse" /\ st.pc = "ReadChannelTable"
  /\ Stage(FALSE)
ReadChannelTable_err ==
  /\ phase = "parse" /\ st.pc = "ReadChannelTable"
  /\ Stage(TRUE)
ChannelStart_ok ==
  /\ phase = "parse" /\ st.pc = "ChannelStart"
  /\ Stage(FALSE)
ChannelStart_err ==
  /\ phase = "parse" /\ st.pc = "ChannelStart"
  /\ Stage(TRUE)
BlockHeader_ok ==
  /\ phase = "parse" /\ st.pc = "BlockHeader"
  /\ Stage(FALSE)
BlockHeader_crash ==
  /\ phase = "parse" /\ st.pc = "BlockHeader"
  /\ Stage(TRUE)
CheckBits_ok ==
  /\ phase = "parse" /\ st.pc = "CheckBits"
  /\ Stage(FALSE)
CheckBits_err ==
  /\ phase = "parse" /\ st.pc = "CheckBits"
  /\ Stage(TRUE)
LocateTable_ok ==
  /\ phase = "parse" /\ st.pc = "LocateTable"
  /\ Stage(FALSE)
LocateValues_ok ==
  /\ phase = "parse" /\ st.pc = "LocateValues"
  /\ Stage(FALSE)
LocateValues_err ==
  /\ phase = "parse" /\ st.pc = "LocateValues"
  /\ Stage(TRUE)
Lookup_ok ==
  /\ phase = "parse" /\ st.pc = "Lookup"
  /\ Stage(FALSE)
Lookup_err ==
  /\ phase = "parse" /\ st.pc = "Lookup"
  /\ Stage(TRUE)
Emit_ok ==
  /\ phase = "parse" /\ st.pc = "Emit"
  /\ Stage(FALSE)

Next ==
  \/ StartChannel \/ EncodeBlock \/ StartParse \/ MutateThenParse
  \/ ReadChannelTable_ok \/ ReadChannelTable_err \/ ChannelStart_ok \/ ChannelStart_err
  \/ BlockHeader_ok \/ BlockHeader_crash \/ CheckBits_ok \/ CheckBits_err
  \/ LocateTable_ok \/ LocateValues_ok \/ LocateValues_err
  \/ Lookup_ok \/ Lookup_err \/ Emit_ok

Spec == Init /\ [][Next]_vars

\* ---- invariants -----------------------------------------------------------
EncodingWellFormed == phase = "encoded" => WFClause(B, cfg) = "ok"
EncodingValid      == phase = "encoded" => ValidB(B, cfg)
EncodingDecodes    == phase = "encoded" => CSegDecodeB(B, cfg) = arr
EncodingAccepted   == phase = "encoded" =>
                        ParseOutcome(B, cfg) = [kind |-> "ok", clause |-> "", arr |-> arr]
Parsed == phase = "parse" /\ Terminal(st)
ParseTotal    == Parsed => st.pc # "Crash"
ParseAgrees   == Parsed /\ ValidB(B, cfg) => st.pc = "Done" /\ st.out = CSegDecodeB(B, cfg)
ParseComplete == Parsed /\ st.pc = "Done" =>
                   Len(st.out) = ArrLen(cfg) /\ \A k \in 1..Len(st.out) : st.out[k] # Unset
MacroEqualsSteps == Parsed => ParseOutcome(B, cfg) = Outcome(st)
\* an unmutated encoding is always read back
UnmutatedAccepted == Parsed /\ mut = NoMut => st.pc = "Done" /\ st.out = arr

\* ---- bounded parameter spaces ----------------------------------------------
With(b, K, up, tfirst, padlast, arrs, mutate) ==
  [C |-> b.C, X |-> b.X, Y |-> b.Y, Z |-> b.Z, bx |-> b.bx, by |-> b.by, bz |-> b.bz,
   wpl |-> b.wpl, K |-> K, up |-> up, tfirst |-> tfirst, padlast |-> padlast,
   arrs |-> arrs, mutate |-> mutate]
\* number of labels by total voxel count (keeps 3 labels for <= 4 voxels)
KFor(b) == IF b.C * b.X * b.Y * b.Z <= 4 THEN 3 ELSE 2

\* encoder family x every array (no mutation).  Styles <<up, tfirst, padlast>>.
Styles == {<<0, TRUE, FALSE>>, <<1, FALSE, TRUE>>, <<5, TRUE, TRUE>>}
EncSpaceFull ==
  {With(b, KFor(b), s[1], s[2], s[3], "all", FALSE) :
     b \in {x \in Bases({1}, {1, 2}) : Small(x, 8)} \cup {x \in Bases({2}, {1, 2}) : Small(x, 4)},
     s \in Styles} \cup
  {With(b, 2, 0, TRUE, FALSE, "all", FALSE) : b \in {x \in Bases({2}, {1}) : Small(x, 8) /\ ~Small(x, 4)}}
EncSpaceQuick ==
  {With(b, KFor(b), 0, TRUE, FALSE, "all", FALSE) :
     b \in {x \in Bases({1, 2}, {1}) : Small(x, 4)}} \cup
  {With(b, KFor(b), 1, FALSE, TRUE, "all", FALSE) :
     b \in {x \in Bases({1}, {2}) : Small(x, 4)}}
\* mutants of a few encodings
MutSpaceFull ==
  {With(b, 3, up, TRUE, FALSE, "ramp", TRUE) : b \in MutBasesFull, up \in {0, 1, 2, 3, 4, 5}}
MutSpaceQuick ==
  {With(b, 3, up, TRUE, FALSE, "ramp", TRUE) : b \in MutBasesQuick, up \in {0, 2, 5}}

MCSpaceFull == EncSpaceFull \cup MutSpaceFull
MCSpaceQuick == EncSpaceQuick \cup MutSpaceQuick
=============================================================================
