SPECIFICATION TSpec
CONSTANTS
  Fallback = "absentOnly"
  MaxOps = 1000
INVARIANT Emit
