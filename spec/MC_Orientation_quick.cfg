SPECIFICATION Spec
CONSTANTS
  SliceStop = "none"
  CfgSpace <- MCCfgSpaceQuick
INVARIANT OracleSound
INVARIANT NoRaise
INVARIANT NeverTwice
INVARIANT WindowCoversOnce
