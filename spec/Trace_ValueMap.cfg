SPECIFICATION TraceSpec
CONSTANTS
  CopyPolicy = "reuseWhenPossible"
  CfgSpace = {}
INVARIANT Emit
