------------------------- MODULE ShardWriterFaults -------------------------
(* Growth of the sharded-writer design (ShardWriter.tla): a store can FAIL   *)
(* half-way (an I/O error on the writer's temporary stores), the caller may  *)
(* go on and the accessor is closed afterwards (the tools close it in a      *)
(* `finally`, the interpreter calls the atexit-registered close()).          *)
(* Partial states a failing MiniShard.store_cmc_chunk can leave              *)
(* (sharded_file_accessor.py; one action per kind):                          *)
(*   FailClean(p)  nothing was recorded (the error came before the append /  *)
(*                 before the chunk was buffered; lengths and keys are only  *)
(*                 recorded after a successful write since 0caaaab)          *)
(*   FailLost(p)   p was the awaited identifier: it was appended, then       *)
(*                 flush_buffer() popped the next buffered chunk and the     *)
(*                 append of THAT chunk failed - the buffered chunk (whose   *)
(*                 own store call had returned normally) is in neither place *)
(* Switch Sticky \in {"brokenFlag", "none"}:                                 *)
(*   brokenFlag = the minishard remembers the failure and closing its shard  *)
(*                raises (d9cdaa2); none = close writes whatever is there    *)
(*                (the code before that commit).                             *)
(* Property NoSilentLoss: a close() that returns normally has written every  *)
(* chunk whose store call returned normally (C18: "never returns normally as *)
(* if it had succeeded").  Sticky = "none" must FAIL this (non-vacuity).     *)
EXTENDS ShardWriter

CONSTANT Sticky

VARIABLES accepted,   \* positions whose store call returned normally
          failed,     \* positions whose store call raised
          broken      \* (shard, mini) keys whose bookkeeping a failed store left incomplete

fvars == <<vars, accepted, failed, broken>>

FInit == Init /\ accepted = {} /\ failed = {} /\ broken = {}

StoreOk(p) == /\ Store(p)
              /\ accepted' = accepted \cup {p}
              /\ UNCHANGED <<failed, broken>>

CanFail(p) == phase = "open" /\ p \notin stored /\ p \notin failed /\ Cardinality(failed) < 1

FailClean(p) == /\ CanFail(p)
                /\ failed' = failed \cup {p}
                \* whether anything was touched or not, the code marks the minishard
                /\ broken' = broken \cup {KeyOf(IdOf(p))}
                /\ UNCHANGED <<vars, accepted>>

FailLost(p) ==
  LET id == IdOf(p)
      key == KeyOf(id)
      base == IF key \in DOMAIN ms THEN ms[key] ELSE NewMini(id)
      m1 == AppendEntry(base, id, PaySize(id), TRUE)
  IN /\ CanFail(p)
     /\ NextId(base) = id
     /\ NextId(m1) \in m1.buf
     /\ ms' = [k \in DOMAIN ms \cup {key} |->
                 IF k = key THEN [m1 EXCEPT !.buf = @ \ {NextId(m1)}] ELSE ms[k]]
     /\ failed' = failed \cup {p}
     /\ broken' = broken \cup {key}
     /\ UNCHANGED <<cfg, stored, phase, files, accepted>>

\* ShardedFileAccessor.close(): every shard is written unless one of its
\* minishards is marked broken
CloseF ==
  /\ phase = "open"
  /\ IF Sticky = "brokenFlag" /\ broken # {}
     THEN phase' = "closeRaised" /\ files' = files
     ELSE phase' = "closed" /\ files' = BuildFiles(ms)
  /\ UNCHANGED <<cfg, stored, ms, accepted, failed, broken>>

FNext == \/ \E p \in AllPos(cfg.grid) : StoreOk(p) \/ FailClean(p) \/ FailLost(p)
         \/ CloseF
FSpec == FInit /\ [][FNext]_fvars

NoSilentLoss ==
  phase = "closed" =>
    \A p \in accepted :
       LET r == SpecLookup(cfg, files, IdOf(p))
       IN r.st = "found" /\ r.size = PaySize(IdOf(p)) /\ r.pay = PayOf(IdOf(p))

\* a failure is never forgotten: once a store has failed, no close returns normally
FailureReported == failed # {} => phase # "closed"

\* without failures the extension is the original design
FaultFreeSame == failed = {} => accepted = stored
=============================================================================
