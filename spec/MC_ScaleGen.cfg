SPECIFICATION Spec
CONSTANTS
  StopRule = "minusDelay"
  ChunkRule = "code"
  SeedSpace <- SeedsFull
  SizeSpace <- SizeTriplesT
INVARIANT Report
