SPECIFICATION Spec
CONSTANTS
  StopRule = "plusDelay"
  ChunkRule = "delayAware"
  ReduceRule = "loop"
  KeyRule = "fallback"
  AssignRule = "strict"
  SeedSpace <- SeedsFullX
  SizeSpace <- SizeTriplesT
INVARIANT Report
INVARIANT DesignValid
