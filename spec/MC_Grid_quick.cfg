SPECIFICATION Spec
CONSTANTS
  Clamp = "min"
  CfgSpace <- MCCfgSpaceQuick
INVARIANT AllOnGrid
INVARIANT NeverTwice
INVARIANT EachVoxelOnce
