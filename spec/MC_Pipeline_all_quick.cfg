SPECIFICATION Spec
CONSTANTS
  Dirs <- MCDirs
  TypeEncs <- QuickTypeEncs
  Maxes <- QuickMaxes
  Methods <- QuickMethods
  Shardings <- FullShardings
  Codes <- QuickCodes
  MeshDirs <- NoMesh
  MeshNames <- NoMesh
  Tables <- NoMesh
  MeshRewritesInfo = "keepAll"
  CfgSpace <- QuickCfg
  MaxLen = 1000
  AioForwardsMethod = TRUE
  CopyInfoLayout = "byInfo"
INVARIANT TypeOK
INVARIANT AllInOneEqualsSteps
INVARIANT RepeatIsNoop
INVARIANT SuccessMeansComplete
INVARIANT SourceUntouched
INVARIANT ConvertPreserves
VIEW ViewNoCount
