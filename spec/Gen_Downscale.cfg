SPECIFICATION Spec
CONSTANTS
  MaxVox = 8
  Sample = 1500
INVARIANT Emit
