----------------------------- MODULE CSegScope -----------------------------
(* Tiny-scope vocabulary shared by MC_CSeg (model checking) and Gen_CSeg    *)
(* (export of input points for the real code): parameter records, concrete  *)
(* label pools, arrays over label indices.                                  *)
EXTENDS CSeg

\* labels as halves (least significant first): 1, 65536, 2^32-1 for uint32;
\* 7, 2^53+1, 2^64-1 for uint64
LabelPool(wpl) ==
  IF wpl = 1 THEN << <<1, 0>>, <<0, 1>>, <<65535, 65535>> >>
  ELSE << <<7, 0, 0, 0>>, <<1, 0, 0, 32>>, <<65535, 65535, 65535, 65535>> >>
NLabels(c) == c.C * NVox(c)
ArrOf(c, f) == FlattenSeq([v \in 1..NLabels(c) |-> LabelPool(c.wpl)[f[v] + 1]])

Base(C, X, Y, Z, bx, by, bz, wpl) ==
  [C |-> C, X |-> X, Y |-> Y, Z |-> Z, bx |-> bx, by |-> by, bz |-> bz, wpl |-> wpl]
D2 == 1..2
Bases(Cs, Ws) == {Base(C, X, Y, Z, bx, by, bz, w) :
                    C \in Cs, X \in D2, Y \in D2, Z \in D2, bx \in D2, by \in D2, bz \in D2, w \in Ws}
Small(b, n) == b.C * b.X * b.Y * b.Z <= n
Cubic(b) == b.bx = b.by /\ b.by = b.bz

\* the two fixed array patterns of the mutation bases
RampFuns(c, K) == {[v \in 1..NLabels(c) |-> (v - 1) % K],
                   [v \in 1..NLabels(c) |-> ((v - 1) \div 2) % K]}

\* valid encodings that get mutated (1-2 channels, block grids up to 2x2x2)
MutBasesQuick ==
  {Base(2, 2, 2, 1, 1, 2, 1, 1), Base(1, 2, 2, 2, 2, 2, 2, 2)}
MutBasesFull ==
  {Base(1, 2, 2, 2, 2, 2, 2, 1), Base(2, 2, 2, 1, 1, 2, 1, 1), Base(2, 2, 1, 2, 2, 1, 1, 2),
   Base(1, 2, 2, 2, 1, 1, 2, 2), Base(2, 1, 1, 2, 1, 1, 1, 1), Base(2, 2, 2, 2, 2, 2, 2, 1),
   Base(1, 2, 1, 1, 2, 2, 2, 1), Base(2, 2, 2, 2, 2, 1, 2, 2), Base(1, 2, 2, 2, 1, 1, 1, 1),
   Base(2, 1, 2, 2, 1, 2, 1, 2), Base(1, 1, 1, 1, 1, 1, 1, 1), Base(2, 2, 2, 2, 1, 2, 2, 1)}
=============================================================================
