SPECIFICATION Spec
CONSTANTS
  SlotPlacement = "bySlot"
  EmptySlotRead = "crash"
  CfgSpace <- MCCfgSpace
INVARIANT OrderIndependent
INVARIANT BufferSound
INVARIANT ClosedWellFormed
INVARIANT ReadBack
INVARIANT NeverStored
INVARIANT OwnReaderAgrees
PROPERTY Monotone
