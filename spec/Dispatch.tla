------------------------------ MODULE Dispatch ------------------------------
(* Life cycle of ONE dataset directory seen through the accessors that       *)
(* accessor.get_accessor_for_url hands out.  The question the module         *)
(* answers: whatever the order in which the metadata file is written,        *)
(* accessors are opened (with or without the "sharding" option, through a    *)
(* path, a file:// URL or a precomputed:// URL, or over HTTP for reading),   *)
(* chunks are stored, sessions are closed and the metadata becomes           *)
(* temporarily unreadable - is a stored chunk found again by the next        *)
(* accessor, and does it sit in the storage form the metadata announces?     *)
(*                                                                          *)
(* ORACLE layer (property C12: "a dataset written under any configuration   *)
(* is read correctly by an accessor opened with any other configuration";   *)
(* docstring of get_accessor_for_url; the comment in the code that          *)
(* "writing un-sharded chunks into a sharded dataset must not happen"):     *)
(*   ReadYourWrites    as long as the metadata has not been replaced since   *)
(*                     the first store, every accessor opened later reads   *)
(*                     the payload stored last                              *)
(*   NoSilentMisroute  under the same premise, a dataset whose metadata      *)
(*                     announces sharding holds no plain chunk file, and     *)
(*                     one whose metadata does not holds no shard            *)
(*   OpenTotal         opening ends in an accessor, a URLError or a          *)
(*                     data-access error, never in anything else (trace)     *)
(* DESIGN layer: the decision table of get_accessor_for_url                  *)
(*   sharding option truthy              -> sharded accessor                 *)
(*   info readable, every scale sharded  -> sharded accessor                 *)
(*   info absent / malformed / no scales -> plain accessor                   *)
(*   info present but unreadable         -> error     (Fallback = absentOnly,*)
(*                                          the code since fix 34021e9)     *)
(*                                       -> plain     (Fallback = anyError, *)
(*                                          the code before; must violate)  *)
(* and the storage step of each accessor kind (plain: the chunk file at     *)
(* once; sharded: a pending chunk that reaches the shard file on close, and *)
(* needs a metadata file that describes the sharding).                      *)
(*                                                                          *)
(* Deliberately outside: metadata with SOME scales sharded ("mixed": the    *)
(* code treats it as un-sharded; the sharded accessor refuses it), the      *)
(* layout / compression options (FileStore.tla), several chunks per shard   *)
(* (ShardWriter / ShardSessions).                                           *)
EXTENDS Naturals, FiniteSets, TLC

CONSTANTS Fallback, MaxOps

InfoKinds == {"absent", "plain", "sharded", "malformed", "noscales"}
Handles   == {"h1", "h2"}
Data      == {1, 2}                     \* payload versions; 0 = nothing there
ShOpts    == {"unset", "none", "true"}  \* options dict: no key / sharding=None / sharding=True
Local     == {"path", "file", "precomputed", "precomputed-file"}
Schemes   == Local \cup {"http"}
BadUrls   == {"ftp", "file-remote", "file-badpercent"}

VARIABLES info,       \* what the metadata file holds
          readable,   \* FALSE: reading an existing metadata file fails (EIO / EACCES)
          plain,      \* payload of the chunk as a plain chunk file
          shard,      \* payload of the chunk inside the shard file
          kind,       \* per handle: "closed" | "plain" | "sharded" | "http" | "httpsharded"
          pend,       \* per handle: payload accepted by a sharded session, not yet on disk
          openedFor,  \* ghost, per handle: was it opened for a sharded dataset (metadata or option)
          latest,     \* ghost: payload of the last completed store
          epoch,      \* ghost: TRUE while the metadata is the one the first store saw
          nops
vars == <<info, readable, plain, shard, kind, pend, openedFor, latest, epoch, nops>>

Announces(k) == k = "sharded"

\* ---- design: decision table ------------------------------------------------
\* local branch tests the VALUE of the option, the http branch the KEY
OptionForces(scheme, so) ==
  IF scheme = "http" THEN so # "unset" ELSE so = "true"
InfoSaysSharded == info = "sharded" /\ readable
Route(scheme, so) ==
  LET sharded == OptionForces(scheme, so) \/ InfoSaysSharded
      \* the probe that fails: info exists but cannot be read
      probeFails == ~OptionForces(scheme, so) /\ info # "absent" /\ ~readable
  IN IF probeFails /\ scheme # "http" /\ Fallback = "absentOnly" THEN "error"
     \* the sharded HTTP accessor reads the sharding description when it is built
     ELSE IF scheme = "http" THEN (IF ~sharded THEN "http"
                                   ELSE IF InfoSaysSharded THEN "httpsharded" ELSE "error")
     ELSE IF sharded THEN "sharded" ELSE "plain"

\* ---- design: what a fetch through a handle returns (0 = error / no data) ----
FetchVia(k) ==
  CASE k \in {"plain", "http"} -> plain
    [] k \in {"sharded", "httpsharded"} ->
         IF info = "sharded" /\ readable THEN shard ELSE 0
    [] OTHER -> 0

Init == /\ info \in InfoKinds
        /\ readable = TRUE
        /\ plain = 0 /\ shard = 0
        /\ kind = [h \in Handles |-> "closed"]
        /\ pend = [h \in Handles |-> 0]
        /\ openedFor = [h \in Handles |-> FALSE]
        /\ latest = 0
        /\ epoch = TRUE
        /\ nops = 0

Tick == nops < MaxOps /\ nops' = nops + 1

\* a tool or the user (re)writes the metadata
WriteInfo(k) ==
  /\ Tick /\ k # info
  /\ info' = k
  \* replacing the metadata of a dataset that already holds chunks ends the
  \* premise of the oracle (the hand edit of docs/examples.rst does that)
  /\ epoch' = (epoch /\ plain = 0 /\ shard = 0 /\ \A h \in Handles : pend[h] = 0)
  /\ UNCHANGED <<readable, plain, shard, kind, pend, openedFor, latest>>

\* environment: the metadata file becomes unreadable / readable again
SetReadable(b) ==
  /\ Tick /\ b # readable
  /\ readable' = b
  /\ UNCHANGED <<info, plain, shard, kind, pend, openedFor, latest, epoch>>

Open(h, scheme, so) ==
  /\ Tick /\ kind[h] = "closed"
  /\ LET r == Route(scheme, so) IN
     kind' = [kind EXCEPT ![h] = IF r = "error" THEN "closed" ELSE r]
  \* (a caller who passes the sharding option vouches that the dataset is / will be sharded:
  \* convert-chunks --copy-info and volume-to-precomputed --sharding open the destination that
  \* way BEFORE its metadata exists)
  /\ openedFor' = [openedFor EXCEPT ![h] = Announces(info) \/ so = "true"]
  /\ UNCHANGED <<info, readable, plain, shard, pend, latest, epoch>>

\* store through an open local handle (overwrite allowed)
Store(h, v) ==
  /\ Tick /\ kind[h] \in {"plain", "sharded"}
  /\ IF kind[h] = "plain"
     THEN /\ plain' = v /\ latest' = v
          /\ UNCHANGED <<shard, pend>>
     ELSE \* the sharded accessor needs the sharding description of the scale
          IF info = "sharded" /\ readable /\ pend[h] = 0
          THEN pend' = [pend EXCEPT ![h] = v] /\ UNCHANGED <<plain, shard, latest>>
          ELSE UNCHANGED <<plain, shard, pend, latest>>          \* refused with an error
  \* a store through an accessor that was opened for a dataset of the other
  \* announcement (metadata written after the accessor was opened) ends the premise
  /\ epoch' = (epoch /\ openedFor[h] = Announces(info))
  /\ UNCHANGED <<info, readable, kind, openedFor>>

Close(h) ==
  /\ Tick /\ kind[h] # "closed"
  /\ kind' = [kind EXCEPT ![h] = "closed"]
  /\ IF pend[h] # 0
     THEN shard' = pend[h] /\ latest' = pend[h] /\ pend' = [pend EXCEPT ![h] = 0]
     ELSE UNCHANGED <<shard, latest, pend>>
  /\ UNCHANGED <<info, readable, plain, openedFor, epoch>>

Next == \/ \E k \in InfoKinds : WriteInfo(k)
        \/ \E b \in BOOLEAN : SetReadable(b)
        \/ \E h \in Handles, s \in Schemes, so \in ShOpts : Open(h, s, so)
        \/ \E h \in Handles, v \in Data : Store(h, v)
        \/ \E h \in Handles : Close(h)
Spec == Init /\ [][Next]_vars

\* ---- oracle -------------------------------------------------------------------
Quiescent == \A h \in Handles : pend[h] = 0
\* an accessor opened NOW by the dispatcher without forcing options
FreshKinds == {Route(s, "unset") : s \in Schemes} \ {"error"}
ReadYourWrites ==
  (epoch /\ readable /\ Quiescent /\ latest # 0) =>
     \A k \in FreshKinds : FetchVia(k) = latest
NoSilentMisroute ==
  epoch => /\ (Announces(info) => plain = 0)
           /\ (~Announces(info) => shard = 0)
\* a reader never gets a payload that was not the last one stored
NoStaleRead ==
  (epoch /\ Quiescent) => \A h \in Handles : FetchVia(kind[h]) \in {0, latest}

TypeOK == /\ info \in InfoKinds /\ readable \in BOOLEAN
          /\ plain \in Data \cup {0} /\ shard \in Data \cup {0}
          /\ kind \in [Handles -> {"closed", "plain", "sharded", "http", "httpsharded"}]
          /\ pend \in [Handles -> Data \cup {0}]
NoCounterView == <<info, readable, plain, shard, kind, pend, openedFor, latest, epoch>>
=============================================================================
