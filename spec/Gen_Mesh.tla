------------------------------ MODULE Gen_Mesh ------------------------------
(* S->C export for C17: every case enumerated by MC_Mesh (structural reader *)
(* inputs with the bytes the model builds, round-trip meshes as float32     *)
(* patterns, winding instances) is printed once, to be replayed on the real *)
(* read_precomputed_mesh / save_mesh_as_precomputed / affine_transform_mesh *)
(* and judged by Trace_Mesh.  The oracle exit is exported only for coverage *)
(* accounting (which automaton exits were replayed).                        *)
EXTENDS MC_Mesh, Json
GenSpec == Init /\ [][UNCHANGED vars]_vars
Payload ==
  CASE cfg.kind = "read" ->
         [kind |-> "read", b |-> BytesOf(cfg.p), exit |-> ReadOutcome(BytesOf(cfg.p)).exit,
          n |-> cfg.p.n, len |-> cfg.p.len]
    [] cfg.kind = "rt" ->
         [kind |-> "rt", v |-> RtV(cfg.p), t |-> cfg.p.t]
    [] OTHER ->
         [kind |-> "wind", v |-> cfg.p.mesh.v, t |-> cfg.p.mesh.t, M |-> cfg.p.M, tr |-> cfg.p.tr]
Emit == PrintT(<<"BEH", ToJson(Payload)>>)
=============================================================================
