-------------------------- MODULE Gen_ShardSessions --------------------------
(* S->C export: two-session histories with duplicate stores (simulation). *)
EXTENDS MC_ShardSessions, Json
\* export: history variable
VARIABLE hist
hvars == <<svars, hist>>
HInit == SInit /\ hist = << >>
HNext == \/ \E p \in AllPos(cfg.grid) : SStore(p) /\ hist' = Append(hist, <<"store", p>>)
         \/ \E p \in AllPos(cfg.grid) : SDup(p) /\ hist' = Append(hist, <<"dup", p, dupRes'>>)
         \/ SClose /\ hist' = Append(hist, <<"close">>)
         \/ (sess < 2 /\ SReopen /\ hist' = Append(hist, <<"reopen">>))
HSpec == HInit /\ [][HNext]_hvars
HConstraint == Len(hist) <= 7
Emit == (phase = "closed" /\ sess = 2) =>
          PrintT(<<"BEH", ToJson([cfg |-> cfg, hist |-> hist, visible |-> Visible])>>)
=============================================================================
