------------------------ MODULE Trace_PyramidAssembly ------------------------
(* TLC judges what the REAL pyramid code did (C06).  One case = one scale     *)
(* transition of one real run:                                               *)
(*   axes   <<[size, o, n, f], ..x3>>  the three per-axis instances (x, y, z) *)
(*   gen    TRUE when the info came out of the real scale generator          *)
(*   raised "" or the exception class of the run at this transition          *)
(* mode "level" (S->C): a, b = the new level read back after two runs with    *)
(*   differently poisoned np.empty; ref = the implementation's own           *)
(*   downscaler applied to the whole previous level; missing = number of     *)
(*   chunks of the new level that could not be read back.                    *)
(* mode "prov" (C->S): events = reads and writes seen by recording reader /  *)
(*   writer objects on a coordinate-coded volume with the striding           *)
(*   downscaler; every written voxel names the old voxel it was taken from.  *)
(*                                                                          *)
(* Oracle clauses (from the property text):                                  *)
(*   a run that COMPLETES must have written the global downscale:            *)
(*     oracle:MissingChunk, oracle:UnwrittenVoxel (the two poisoned runs     *)
(*     differ / a written voxel is no old voxel), oracle:LevelEqualsGlobal-  *)
(*     Downscale (pair processable by design) or oracle:SilentWrongData (pair*)
(*     not processable: the tool had to fail instead), oracle:ChunkOnGrid,   *)
(*     oracle:Provenance, oracle:AllChunksWritten;                           *)
(*   a run that RAISES is what the property asks for when the pair cannot be *)
(*     processed (spec outcome # Correct); on a processable pair the level   *)
(*     does not exist: oracle:LevelEqualsGlobalDownscale.                    *)
(* mode "level", method selection: sel = "auto" when the run asked for the   *)
(*   default method ("auto": get_downscaler("auto", info, options) or the    *)
(*   compute-scales command line); the harness then records TWO references,  *)
(*   ref_image (averaging with the configured outside value) and             *)
(*   ref_segmentation (striding), and the documented selection rule - image  *)
(*   -> average, otherwise stride - is applied HERE on itype (Ref).          *)
(* mode "level", fault # "" (last clause of the property): right before the  *)
(*   step one chunk of the PRECEDING scale was removed / damaged (missing,   *)
(*   badgzip, truncated), so the pair cannot be processed; ref = the global  *)
(*   downscale of the intact preceding scale.  Allowed: an error, or a level *)
(*   equal to that global downscale; a normal return with anything else is   *)
(*   oracle:FailsInsteadOfWrongData (pos 5: completed and correct).          *)
(* mode "level", via = "lib" (function API) | "cli" (compute-scales main) |  *)
(*   "v2p" (all-in-one volume-to-precomputed-pyramid main).  At the TOOL     *)
(*   level (cli, v2p) raised = "" means main returned a zero / empty exit    *)
(*   status: the property's last clause then demands that the level exists   *)
(*   and equals the global downscale WHATEVER info the tool was given (also  *)
(*   hand-edited incompatible chunk sizes): a zero status with a missing,    *)
(*   unwritten or wrong level on a pair that cannot be processed is          *)
(*   oracle:FailsInsteadOfWrongData.                                         *)
(* mode "level", foreign = TRUE: the two sizes are not related by factors 1  *)
(*   / 2 per axis (e.g. factor 3): outside the per-axis model; an error is   *)
(*   what the property asks for; a completed tool run must have written the  *)
(*   global downscale by the size ratio (pos 6) - else                       *)
(*   oracle:FailsInsteadOfWrongData (function API: observation, pos 3).      *)
(* Silent corruption is a verdict only for pairs the generator emitted       *)
(* (gen) or that are processable by design; hand-made incompatible pairs are *)
(* reported through pos (3) - the property quantifies over generated infos.  *)
(* pos: 0 model and code agree, 1 model Error / code completed correctly,    *)
(* 2 model SilentWrong / code raised, 3 hand-made pair silently wrong as the *)
(* model predicts, 4 model Error / code completed with wrong data (hand-made)*)
(* 5 source fault / code completed with the correct level                    *)
(* 6 foreign size ratio / code completed with the correct level              *)
EXTENDS PyramidAssembly, Json, IOUtils

Cases == ndJsonDeserialize(IOEnv.TRACE_FILE)
VARIABLES tid, ph
tvars == <<vars, tid, ph>>
NoSpace == {}

SpecOutcome(c) == Combine([a \in 1..3 |-> Outcome(c.axes[a])])

\* ---- mode "level" ---------------------------------------------------------
\* the reference of the SELECTED method (documented rule for "auto")
Ref(c) == IF c.sel = "auto"
          THEN (IF c.itype = "image" THEN c.ref_image ELSE c.ref_segmentation)
          ELSE c.ref
Tool(c) == c.via \in {"cli", "v2p"}
\* sizes not related by factors 1 / 2
ForeignVerdict(c) ==
  LET wrong == c.missing > 0 \/ c.a # c.b \/ c.a # Ref(c)
  IN IF c.raised # "" THEN <<"ok", 0>>
     ELSE IF ~wrong THEN <<"ok", 6>>
     ELSE IF Tool(c) THEN <<"oracle:FailsInsteadOfWrongData", 0>>
     ELSE <<"ok", 3>>
\* a source chunk of the preceding scale is missing / unreadable
FaultVerdict(c) ==
  LET spec == SpecOutcome(c)
      strict == c.gen \/ spec = "Correct"
      wrong == c.missing > 0 \/ c.a # c.b \/ c.a # Ref(c)
  IN IF c.raised # "" THEN <<"ok", 0>>
     ELSE IF ~wrong THEN <<"ok", 5>>
     ELSE IF strict THEN <<"oracle:FailsInsteadOfWrongData", 0>>
     ELSE <<"ok", 3>>
PlainLevelVerdict(c) ==
  LET spec == SpecOutcome(c)
      strict == c.gen \/ spec = "Correct" \/ Tool(c)
      bad0 == IF c.missing > 0 THEN "oracle:MissingChunk"
             ELSE IF c.a # c.b THEN "oracle:UnwrittenVoxel"
             ELSE IF c.a # Ref(c)
                  THEN (IF spec = "Correct" THEN "oracle:LevelEqualsGlobalDownscale"
                        ELSE "oracle:SilentWrongData")
             ELSE "ok"
      \* tool level, pair that cannot be processed, zero status: the last clause
      bad == IF bad0 # "ok" /\ spec # "Correct" /\ ~c.gen /\ Tool(c)
             THEN "oracle:FailsInsteadOfWrongData" ELSE bad0
  IN IF c.raised # ""
     THEN (IF spec = "Correct" THEN <<"oracle:LevelEqualsGlobalDownscale", 0>>
           ELSE <<"ok", IF spec = "SilentWrong" THEN 2 ELSE 0>>)
     ELSE IF bad = "ok" THEN <<"ok", IF spec = "Correct" THEN 0 ELSE 1>>
     ELSE IF strict THEN <<bad, IF spec = "Error" THEN 4 ELSE 0>>
     ELSE <<"ok", IF spec = "SilentWrong" THEN 3 ELSE 4>>
LevelVerdict(c) == IF c.foreign THEN ForeignVerdict(c)
                   ELSE IF c.fault # "" THEN FaultVerdict(c) ELSE PlainLevelVerdict(c)

\* ---- mode "prov" ------------------------------------------------------------
NSz(ax) == NewSize(ax)
\* chunk coordinates <<min, max>> of new chunk ix on one axis
NewCoords(ax, ix) == <<ax.n * ix, Min2(ax.n * (ix + 1), NSz(ax))>>
OnGridAxis(ax, lo, hi) ==
  lo % ax.n = 0 /\ lo < NSz(ax) /\ hi = Min2(lo + ax.n, NSz(ax))
OnGrid(c, e) == \A a \in 1..3 : OnGridAxis(c.axes[a], e.c[2 * a - 1], e.c[2 * a])
\* expected source voxel of new voxel v (striding = first voxel of the block)
Src(ax, v) == ax.f * v
WriteClause(c, e) ==
  IF e.key # c.newkey \/ ~OnGrid(c, e) \/ ~e.ok THEN "oracle:ChunkOnGrid"
  ELSE LET lx == e.c[2] - e.c[1]
           ly == e.c[4] - e.c[3]
           lz == e.c[6] - e.c[5]
           want(q) == LET tx == (q - 1) % lx
                          ty == ((q - 1) \div lx) % ly
                          tz == (q - 1) \div (lx * ly)
                      IN <<Src(c.axes[1], e.c[1] + tx), Src(c.axes[2], e.c[3] + ty),
                           Src(c.axes[3], e.c[5] + tz)>>
       IN IF Len(e.prov) # lx * ly * lz THEN "oracle:ChunkOnGrid"
          ELSE IF \E q \in 1..Len(e.prov) : e.prov[q][1] < 0 THEN "oracle:UnwrittenVoxel"
          ELSE IF \E q \in 1..Len(e.prov) : e.prov[q] # want(q) THEN "oracle:Provenance"
          ELSE "ok"
Writes(c) == {k \in 1..Len(c.events) : c.events[k].op = "write"}
AllWritten(c) ==
  \A ix \in 0..(NNew(c.axes[1]) - 1), iy \in 0..(NNew(c.axes[2]) - 1), iz \in 0..(NNew(c.axes[3]) - 1) :
     \E k \in Writes(c) :
        c.events[k].c = NewCoords(c.axes[1], ix) \o NewCoords(c.axes[2], iy) \o NewCoords(c.axes[3], iz)
ProvVerdict(c) ==
  LET spec == SpecOutcome(c)
      strict == c.gen \/ spec = "Correct"
      W == Writes(c)
      B == {k \in W : WriteClause(c, c.events[k]) # "ok"}
      first == CHOOSE k \in B : \A j \in B : k <= j
      bad == IF B # {} THEN WriteClause(c, c.events[first])
             ELSE IF c.raised = "" /\ ~AllWritten(c) THEN "oracle:AllChunksWritten"
             ELSE "ok"
  IN IF c.raised # "" /\ spec = "Correct" THEN <<"oracle:AllChunksWritten", 0>>
     ELSE IF c.raised # "" THEN <<"ok", IF spec = "SilentWrong" THEN 2 ELSE 0>>
     ELSE IF bad = "ok" THEN <<"ok", IF spec = "Correct" THEN 0 ELSE 1>>
     ELSE IF strict THEN <<bad, IF spec = "Error" THEN 4 ELSE 0>>
     ELSE <<"ok", IF spec = "SilentWrong" THEN 3 ELSE 4>>

Verdict(c) == IF c.mode = "level" THEN LevelVerdict(c) ELSE ProvVerdict(c)

TInit == /\ tid \in 1..Len(Cases) /\ ph = 0
         /\ cfg = 0 /\ i = 0 /\ part = "trace" /\ dest = << >> /\ level = << >>
TNext == ph = 0 /\ ph' = 1 /\ UNCHANGED <<vars, tid>>
TSpec == TInit /\ [][TNext]_tvars

Emit == ph = 1 =>
        LET v == Verdict(Cases[tid])
        IN PrintT(<<"VERDICT", tid, IF v[1] = "ok" THEN "ok" ELSE "bad", v[1], v[2]>>)
=============================================================================
