SPECIFICATION Spec
CONSTANTS
  Dirs <- MCDirs
  TypeEncs <- MeshTypeEncs
  Maxes <- OneMax
  Methods <- OneMethod
  Shardings <- FullShardings
  Codes <- NoCodes
  MeshDirs <- MeshDirs2
  MeshNames <- MeshNames1
  Tables <- Tables1
  MeshRewritesInfo = "keepAll"
  CfgSpace <- QuickCfg
  MaxLen = 6
  AioForwardsMethod = TRUE
  CopyInfoLayout = "byInfo"
INVARIANT TypeOK
INVARIANT AllInOneEqualsSteps
INVARIANT RepeatIsNoop
INVARIANT SuccessMeansComplete
INVARIANT SourceUntouched
INVARIANT ConvertPreserves
INVARIANT InfoScalesPreserved
INVARIANT MeshKeyStable
INVARIANT LinksNeedKey
