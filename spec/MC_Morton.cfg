SPECIFICATION Spec
CONSTANTS
  MaxG = 6
  LineMax = 64
  W = 8
  MaxTotal = 12
INVARIANT InjectiveInv
INVARIANT BoundedInv
INVARIANT MonotoneInv
INVARIANT DenseInv
INVARIANT MaskInv
