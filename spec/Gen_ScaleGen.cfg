SPECIFICATION GSpec
CONSTANTS
  StopRule = "plusDelay"
  ChunkRule = "delayAware"
  ReduceRule = "loop"
  KeyRule = "fallback"
  AssignRule = "strict"
  SeedSpace <- SeedsQuick
  SizeSpace <- SizeTriplesQ
