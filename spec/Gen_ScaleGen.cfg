SPECIFICATION GSpec
CONSTANTS
  StopRule = "minusDelay"
  ChunkRule = "code"
  SeedSpace <- SeedsQuick
  SizeSpace <- SizeTriplesQ
