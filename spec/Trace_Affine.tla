---------------------------- MODULE Trace_Affine ----------------------------
(* Case specification for generated metadata and transforms (C16, C->S).    *)
(* kind "info": one NIfTI file written by the harness with an EXACTLY known *)
(*   rational affine (A, a) in mm, passed through the real                  *)
(*   volume-to-precomputed --generate-info (src "file": info_fullres.json + *)
(*   transform.json) and through volume_reader.nibabel_image_to_info (src   *)
(*   "api").  Floats printed by the tool are re-encoded by the harness as   *)
(*   the simplest rational within 1e-9 relative distance (absolute floor    *)
(*   1e-9 of the smallest voxel size for lengths, 1e-9 for direction        *)
(*   cosines); a float with no such rational of denominator <= 4096 (in mm  *)
(*   resp. as a pure number) is listed in obs.nonrat - the exact answer is  *)
(*   known to have a small denominator, so this is itself a failure.        *)
(*   Lengths are given in the case unit: K units per mm (K = 1000).         *)
(*     layout, shape    "3d" | "4d" | "rgb", header data shape              *)
(*     A, a, K          exact rationals                                     *)
(*     data             [lo, hi, integer] range of the image values         *)
(*     sharding         [given, mb, sb, pb, enc]                            *)
(*     obs              Seq([src, ok, size, channels, dtype, res, T, t,     *)
(*                           bottom, nonrat, shard : [present, rec]])       *)
(* kind "compact": a 4x4 matrix M formatted by the real                     *)
(*   transform.matrix_as_compact_urlsafe_json and parsed back with a JSON   *)
(*   parser after undoing the '_' for ',' substitution; entries as          *)
(*   float.hex() strings (sign of zero dropped).                            *)
(* Clauses: oracle:InfoRaised, oracle:Size, oracle:Channels,                *)
(*   oracle:DataType, oracle:Sharding, oracle:NotRational,                  *)
(*   oracle:Resolution, oracle:Placement, oracle:CompactRoundTrip.          *)
EXTENDS Integers, Sequences, Json, IOUtils, TLC

F == INSTANCE Affine WITH HalfShift <- "minus", CfgSpace <- {}, cfg <- 0

Cases == ndJsonDeserialize(IOEnv.TRACE_FILE)

VARIABLE tid
tvars == <<tid>>

FirstBad(seq) ==
  IF \E i \in 1..Len(seq) : seq[i] # "ok"
  THEN seq[CHOOSE i \in 1..Len(seq) : seq[i] # "ok" /\ \A j \in 1..(i - 1) : seq[j] = "ok"]
  ELSE "ok"

Chk(b, name) == IF b THEN "ok" ELSE name

ShardOk(c, o) ==
  IF c.sharding.given
  THEN o.shard.present /\
       o.shard.rec = F!ShardingRecord(c.sharding.mb, c.sharding.sb, c.sharding.pb, c.sharding.enc)
  ELSE ~o.shard.present

IsUnitRow(b) == b = <<<<0, 1>>, <<0, 1>>, <<0, 1>>, <<1, 1>>>>

\* evaluated lazily, in the order a reader of the info meets them
ObsClause(c, o) ==
  IF ~o.ok THEN "oracle:InfoRaised"
  ELSE IF o.size # F!ExpectedSize(c.shape) THEN "oracle:Size"
  ELSE IF o.channels # F!ExpectedChannels(c.layout, c.shape) THEN "oracle:Channels"
  ELSE IF ~F!CanHold(o.dtype, c.data) THEN "oracle:DataType"
  ELSE IF ~ShardOk(c, o) THEN "oracle:Sharding"
  ELSE IF o.nonrat # << >> THEN "oracle:NotRational"
  ELSE IF ~F!ResIsNorm(o.res, c.A, c.K) THEN "oracle:Resolution"
  ELSE IF ~(IsUnitRow(o.bottom)
            /\ F!Placement(o.T, o.t, o.res, c.A, c.a, c.K, F!ExpectedSize(c.shape)))
       THEN "oracle:Placement"
  ELSE "ok"

InfoClause(c) ==
  FirstBad(<<Chk(c.run.outcome = "ok", "oracle:InfoRaised")>>
           \o [k \in 1..Len(c.obs) |-> ObsClause(c, c.obs[k])])

CompactClause(c) == Chk(F!CompactRoundTrip(c.M, c.parsed), "oracle:CompactRoundTrip")

Clause(c) == IF c.kind = "info" THEN InfoClause(c) ELSE CompactClause(c)

Init == tid \in 1..Len(Cases)
Next == UNCHANGED tid
Spec == Init /\ [][Next]_tvars

Emit == LET cl == Clause(Cases[tid]) IN
        PrintT(<<"VERDICT", tid, IF cl = "ok" THEN "ok" ELSE "bad", cl, 0>>)
=============================================================================
