---------------------------- MODULE Trace_Affine ----------------------------
(* Case specification for generated metadata and transforms (C16, C->S).    *)
(* kind "info": one NIfTI file written by the harness with an EXACTLY known *)
(*   rational affine (A, a) in mm, passed through the real                  *)
(*   volume-to-precomputed --generate-info (src "file": info_fullres.json + *)
(*   transform.json) and through volume_reader.nibabel_image_to_info (src   *)
(*   "api").  Floats printed by the tool are re-encoded by the harness as   *)
(*   the simplest rational within 1e-9 relative distance (absolute floor    *)
(*   1e-9 of the smallest voxel size for lengths, 1e-9 for direction        *)
(*   cosines); a float with no such rational of denominator <= 4096 (in mm  *)
(*   resp. as a pure number) is listed in obs.nonrat - the exact answer is  *)
(*   known to have a small denominator, so this is itself a failure.        *)
(*   Lengths are given in the case unit: K units per mm (K = 1000).         *)
(*     layout, shape    "3d" | "4d" | "rgb", header data shape              *)
(*     A, a, K          exact rationals                                     *)
(*     data             [lo, hi, integer] range of the image values         *)
(*     sharding         [given, mb, sb, pb, enc]                            *)
(*     obs              Seq([src, ok, size, channels, dtype, res, T, t,     *)
(*                           bottom, nonrat, shard : [present, rec],        *)
(*                           req : [given, mb, sb, pb, enc]])               *)
(*   Every observation carries the sharding request of the generation that  *)
(*   produced it (req).  src "api2" and "store" are further generations     *)
(*   from the SAME loaded image object as "api" (other sharding choice;     *)
(*   store_nibabel_image_to_fullres_info into a fresh directory): the       *)
(*   property speaks of "the info generated from a volume file", so every   *)
(*   generation is judged against the file's affine, not only the first.    *)
(*   The affine (A, a) is what nibabel reports as img.affine for the file   *)
(*   (the sform); it may disagree with the header's pixdim.                 *)
(*   DECLARED SPATIAL UNIT.  c.unit = <<num, den>> is the spatial unit the   *)
(*   file declares (NIfTI xyzt_units) relative to the millimetre: micron     *)
(*   <<1, 1000>>, metre <<1000, 1>>, mm / unknown <<1, 1>>.  The package     *)
(*   documents that it reads every affine as millimetres; the statement      *)
(*   only says "the file's affine" and "nanometres".  Weaker reading: for a  *)
(*   file that declares another unit BOTH conventions are accepted - all     *)
(*   lengths as millimetres, or all lengths in the declared unit - but       *)
(*   resolution, transform and translation must follow the SAME one.  The    *)
(*   harness re-encodes the printed numbers under the millimetre convention  *)
(*   (o.res, o.t, ...) and under each declared unit (o.alts[k], with         *)
(*   alts[k].unit: a pure change of unit of the same numbers, done in exact  *)
(*   rationals so that a factor 10^9 never enters TLC's integers); an        *)
(*   observation is accepted when the whole clause chain holds under the     *)
(*   millimetre encoding or under the alternative whose unit equals c.unit.  *)
(* kind "history": several generations in ONE process from ONE file path;   *)
(*   the file may be replaced between the calls and ignore_scaling may       *)
(*   alternate.  steps = Seq([vol, req, run, obs]) with vol = the file AS IT *)
(*   IS ON DISK at the time of that call (data range under that call's       *)
(*   scaling mode): every call is judged against it with the clauses of      *)
(*   kind "info".                                                            *)
(* kind "rerun": --generate-info run twice on ONE destination directory,    *)
(*   first with volume first.vol into an empty directory, then with a       *)
(*   different volume second.vol;  pre = what the destination held before   *)
(*   the second run: "pair" (both files of the first run),                  *)
(*   "transform_only" / "info_only" (the other file removed).               *)
(*     first, second    [vol : [layout, shape, A, a, K, data], req, run,    *)
(*                       obs : the pair found in the directory afterwards]  *)
(*   Reading (the statement is silent on reruns; the weaker one is taken):  *)
(*   - a run that REPORTS SUCCESS (no exception, exit status 0 or 4 = "data *)
(*     type to be reviewed") leaves info_fullres.json + transform.json that *)
(*     describe the volume it was given     oracle:RerunDescribesVolume     *)
(*   - a run that refuses (exception or another exit status) on a           *)
(*     destination that held a consistent pair leaves a consistent pair:    *)
(*     one that describes the earlier OR the new volume (not necessarily    *)
(*     untouched)                            oracle:RerunRefusalKeepsPair   *)
(*   - a refusing run on a destination that held only one of the two files  *)
(*     is not judged.                                                       *)
(* kind "compact": a 4x4 matrix M formatted by the real                     *)
(*   transform.matrix_as_compact_urlsafe_json and parsed back with a JSON   *)
(*   parser after undoing the '_' for ',' substitution; entries as          *)
(*   float.hex() strings (sign of zero dropped).                            *)
(* Clauses: oracle:InfoRaised, oracle:Size, oracle:Channels,                *)
(*   oracle:DataType, oracle:Sharding, oracle:NotRational,                  *)
(*   oracle:Resolution, oracle:Placement, oracle:CompactRoundTrip,          *)
(*   oracle:RerunDescribesVolume, oracle:RerunRefusalKeepsPair.             *)
EXTENDS Integers, Sequences, Json, IOUtils, TLC

F == INSTANCE Affine WITH HalfShift <- "minus", CfgSpace <- {}, cfg <- 0

Cases == ndJsonDeserialize(IOEnv.TRACE_FILE)

VARIABLE tid
tvars == <<tid>>

FirstBad(seq) ==
  IF \E i \in 1..Len(seq) : seq[i] # "ok"
  THEN seq[CHOOSE i \in 1..Len(seq) : seq[i] # "ok" /\ \A j \in 1..(i - 1) : seq[j] = "ok"]
  ELSE "ok"

Chk(b, name) == IF b THEN "ok" ELSE name

\* req = the sharding request given to the generation that produced o
ShardOk(req, o) ==
  IF req.given
  THEN o.shard.present /\
       o.shard.rec = F!ShardingRecord(req.mb, req.sb, req.pb, req.enc)
  ELSE ~o.shard.present

IsUnitRow(b) == b = <<<<0, 1>>, <<0, 1>>, <<0, 1>>, <<1, 1>>>>

\* Entries of the transform that are out of reach (listed by name in o.huget:
\* translation >= Reach case units, o.hugeT / o.hugebottom: matrix entries >=
\* 1024; their values are replaced by 0).  The bottom row must be (0,0,0,1).
\* When every extent is >= 2 the identity determines T (entries <= 1) and t
\* (below Reach): an out-of-reach entry breaks it.  With a one-voxel-thick axis
\* only t + T.res/2 is determined: an out-of-reach t breaks the identity at
\* voxel 0 when every entry of T is below 4 (see Affine!WithinReach);
\* anything else cannot be decided in 32-bit integers (machinery, exit 2).
HugePlacement(o, size) ==
  IF o.hugebottom # << >> THEN "oracle:Placement"
  ELSE IF F!Thick(size) THEN "oracle:Placement"
  ELSE IF o.hugeT = << >> /\ F!SmallT(o.T) THEN "oracle:Placement"
  ELSE "machinery:OutOfReach"

\* evaluated lazily, in the order a reader of the info meets them
\* c = the volume [layout, shape, data, A, a, K] the observation must describe
ObsClauseMm(c, o, req) ==
  IF ~o.ok THEN "oracle:InfoRaised"
  ELSE IF o.size # F!ExpectedSize(c.shape) THEN "oracle:Size"
  ELSE IF o.channels # F!ExpectedChannels(c.layout, c.shape) THEN "oracle:Channels"
  ELSE IF ~F!CanHold(o.dtype, c.data) THEN "oracle:DataType"
  ELSE IF ~ShardOk(req, o) THEN "oracle:Sharding"
  ELSE IF o.nonrat # << >> THEN "oracle:NotRational"
  ELSE IF ~F!WithinReach(c.A, c.a, c.K) THEN "machinery:OutOfReach"
  ELSE IF o.hugeres # << >> \/ ~F!ResIsNormSafe(o.res, c.A, c.K) THEN "oracle:Resolution"
  ELSE IF o.huget # << >> \/ o.hugeT # << >> \/ o.hugebottom # << >>
       THEN HugePlacement(o, F!ExpectedSize(c.shape))
  ELSE IF ~(IsUnitRow(o.bottom)
            /\ F!Placement(o.T, o.t, o.res, c.A, c.a, c.K, F!ExpectedSize(c.shape)))
       THEN "oracle:Placement"
  ELSE "ok"

\* the same observation with its lengths read in another unit
ObsUnder(o, alt) == [o EXCEPT !.res = alt.res, !.t = alt.t, !.nonrat = alt.nonrat,
                              !.hugeres = alt.hugeres, !.huget = alt.huget]
Mach(x) == x = "machinery:OutOfReach"
\* millimetre convention, or (files declaring another unit) the declared unit
ObsClauseReq(c, o, req) ==
  LET base == ObsClauseMm(c, o, req) IN
  IF base = "ok" \/ ~o.ok \/ c.unit = <<1, 1>> THEN base
  ELSE LET alts == SelectSeq(o.alts, LAMBDA x : x.unit = c.unit)
           r == [k \in 1..Len(alts) |-> ObsClauseMm(c, ObsUnder(o, alts[k]), req)]
       IN IF \E k \in 1..Len(alts) : r[k] = "ok" THEN "ok"
          ELSE IF Mach(base) \/ \E k \in 1..Len(alts) : Mach(r[k]) THEN "machinery:OutOfReach"
          ELSE base

ObsClause(c, o) == ObsClauseReq(c, o, o.req)

InfoClause(c) ==
  FirstBad(<<Chk(c.run.outcome = "ok", "oracle:InfoRaised")>>
           \o [k \in 1..Len(c.obs) |-> ObsClause(c, c.obs[k])])

\* ---- two generations into one destination directory -------------------------
Succeeded(run) == run.outcome = "ok" /\ run.exit \in {0, 4}

RerunClause(c) ==
  LET f == c.first
      g == c.second
      c1 == ObsClauseReq(f.vol, f.obs, f.req)
      g1 == ObsClauseReq(f.vol, g.obs, f.req)      \* the pair after run 2 against volume 1
      g2 == ObsClauseReq(g.vol, g.obs, g.req)      \* ... against volume 2
  IN IF f.run.outcome # "ok" THEN "oracle:InfoRaised"     \* into an empty directory: as kind "info"
     ELSE IF c1 # "ok" THEN c1
     ELSE IF Succeeded(g.run)
          THEN (IF Mach(g2) THEN g2 ELSE Chk(g2 = "ok", "oracle:RerunDescribesVolume"))
     ELSE IF c.pre = "pair"
          THEN (IF g1 # "ok" /\ g2 # "ok" /\ (Mach(g1) \/ Mach(g2)) THEN "machinery:OutOfReach"
                ELSE Chk(g1 = "ok" \/ g2 = "ok", "oracle:RerunRefusalKeepsPair"))
     ELSE "ok"

\* ---- several generations from one file path in one process --------------------
HistoryClause(c) ==
  FirstBad([k \in 1..Len(c.steps) |->
              IF c.steps[k].run.outcome # "ok" THEN "oracle:InfoRaised"
              ELSE ObsClauseReq(c.steps[k].vol, c.steps[k].obs, c.steps[k].req)])

CompactClause(c) == Chk(F!CompactRoundTrip(c.M, c.parsed), "oracle:CompactRoundTrip")

Clause(c) == IF c.kind = "info" THEN InfoClause(c)
             ELSE IF c.kind = "rerun" THEN RerunClause(c)
             ELSE IF c.kind = "history" THEN HistoryClause(c)
             ELSE CompactClause(c)

Init == tid \in 1..Len(Cases)
Next == UNCHANGED tid
Spec == Init /\ [][Next]_tvars

Emit == LET cl == Clause(Cases[tid]) IN
        PrintT(<<"VERDICT", tid, IF cl = "ok" THEN "ok" ELSE "bad", cl, 0>>)
=============================================================================
