SPECIFICATION Spec
CONSTANTS
  SliceStop = "none"
  CfgSpace <- MCCfgSpace
INVARIANT OracleSound
INVARIANT NoRaise
INVARIANT NeverTwice
INVARIANT WindowCoversOnce
