SPECIFICATION Spec2
CONSTANTS
  CfgSpace <- Small
INVARIANT Factorises
