------------------------- MODULE MC_ShardSessions -------------------------
EXTENDS ShardSessions
SessGrids == {<<2,2,1>>, <<1,1,4>>, <<3,1,1>>}
SessTriples == {<<0,1,1>>, <<0,0,1>>, <<1,1,0>>, <<0,2,0>>, <<0,0,0>>}
SessCfgSpace == {[grid |-> g, pb |-> t[1], mb |-> t[2], sb |-> t[3]] : g \in SessGrids, t \in SessTriples}
=============================================================================
