------------------------------- MODULE QRat -------------------------------
(* Small exact rationals <<num, den>> (den > 0), always kept in lowest      *)
(* terms so that numbers stay inside TLC's 32-bit integers.  TLC raises an  *)
(* overflow ERROR (harness exit 2) rather than wrapping, so a case that is  *)
(* too large can never turn into a wrong verdict; the harness chooses       *)
(* inputs that keep every intermediate value small.                         *)
(* Used by the value-mapping oracle of Trace_Grid (C01) and by the affine   *)
(* oracle (C16).                                                            *)
EXTENDS Integers, Sequences

QAbs(a) == IF a < 0 THEN -a ELSE a

RECURSIVE QGcd(_, _)
QGcd(a, b) == IF b = 0 THEN a ELSE QGcd(b, a % b)

\* lowest terms, positive denominator
QNorm(q) ==
  LET n == IF q[2] < 0 THEN -q[1] ELSE q[1]
      d == QAbs(q[2])
      g == QGcd(QAbs(n), d)
  IN IF n = 0 THEN <<0, 1>> ELSE <<n \div g, d \div g>>

QInt(n) == <<n, 1>>
IsQ(q) == Len(q) = 2 /\ q[2] > 0

\* cross-reduced arithmetic (keeps intermediates small)
QAdd(a, b) ==
  LET g == QGcd(a[2], b[2])
  IN QNorm(<<a[1] * (b[2] \div g) + b[1] * (a[2] \div g), (a[2] \div g) * b[2]>>)
QNeg(a) == <<-a[1], a[2]>>
QSub(a, b) == QAdd(a, QNeg(b))
QMul(a, b) ==
  LET g1 == QGcd(QAbs(a[1]), b[2])
      g2 == QGcd(QAbs(b[1]), a[2])
      h1 == IF g1 = 0 THEN 1 ELSE g1
      h2 == IF g2 = 0 THEN 1 ELSE g2
  IN QNorm(<<(a[1] \div h1) * (b[1] \div h2), (a[2] \div h2) * (b[2] \div h1)>>)
QInv(a) == IF a[1] < 0 THEN <<-a[2], -a[1]>> ELSE <<a[2], a[1]>>     \* a # 0
QDiv(a, b) == QMul(a, QInv(b))
QEq(a, b) == QNorm(a) = QNorm(b)
QLeq(a, b) == QSub(a, b)[1] <= 0
QLess(a, b) == QSub(a, b)[1] < 0

QFloor(a) == a[1] \div a[2]          \* TLA+ \div rounds towards minus infinity
\* round to nearest integer, ties to the even neighbour (IEEE / np.rint)
QRoundHE(a) ==
  LET q == a[1] \div a[2]
      r == a[1] % a[2]               \* 0 <= r < den
  IN IF 2 * r < a[2] THEN q
     ELSE IF 2 * r > a[2] THEN q + 1
     ELSE IF q % 2 = 0 THEN q ELSE q + 1

\* dot product of two sequences of rationals
RECURSIVE QDotFrom(_, _, _)
QDotFrom(u, v, k) == IF k > Len(u) THEN <<0, 1>> ELSE QAdd(QMul(u[k], v[k]), QDotFrom(u, v, k + 1))
QDot(u, v) == QDotFrom(u, v, 1)
=============================================================================
