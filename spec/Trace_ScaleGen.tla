--------------------------- MODULE Trace_ScaleGen ---------------------------
(* S->C verdicts for C08.  One case = one call of the REAL generator        *)
(* (fill_scales_for_dyadic_pyramid or the generate-scales-info command):    *)
(*   in       the enumerated input  [size, res, s, T, maxs]  (ScaleGen.tla) *)
(*   raised   "" or the exception class                                     *)
(*   scales   the scales of the real output, re-encoded                     *)
(*   jsonok   the written info file parsed as JSON (fact; TRUE when the     *)
(*            function was called directly)                                 *)
(*   accepted PrecomputedIO / get_encoder accepted the info (fact)          *)
(*   sat      the requested type/encoding/data_type combination has an      *)
(*            encoder at all (ScaleGen!Satisfiable, evaluated here)         *)
(*   params   what set_info_params did: [inType, inEnc, argType, argEnc,    *)
(*            dtype, hasBlock, channels, outType, outEnc, outDtype, block]  *)
(*   design   TRUE when the input is inside the transcription's range       *)
(* Verdict: all failing oracle clauses as code letters (ValidPyramid and the *)
(* facts).  pos: 0 = the transcription predicts exactly this output,        *)
(* otherwise the first differing aspect (DRIFT, never a verdict):           *)
(* 1 raise/no raise, 2 number of scales, 3 keys, 4 sizes, 5 ratios,         *)
(* 6 chunk sizes, 7 set_info_params table, 9 not compared.                  *)
EXTENDS ScaleGen, Json, IOUtils

Cases == ndJsonDeserialize(IOEnv.TRACE_FILE)
\* ph: TLC evaluates the invariant of INITIAL states in one thread; the
\* verdict is therefore printed on the successor state (parallel workers)
VARIABLES tid, ph
vars == <<tid, ph>>


Params(c) == SetInfoParams(c.params.inType, c.params.inEnc, c.params.argType,
                           c.params.argEnc, c.params.dtype, c.params.hasBlock)

\* code letters as in ScaleGen!FailListD plus X Raised, J ValidJson,
\* A NotAcceptedByIO (facts); the detail of P (if any) stays last
OracleClause(c) ==
  IF c.raised # "" \/ Len(c.scales) = 0 THEN "X"
  ELSE (IF c.jsonok THEN "" ELSE "J")
       \o (IF c.accepted \/ ~Satisfiable(Params(c), c.params.channels) THEN "" ELSE "A")
       \o FailList(c.in, c.scales)

Col(scales, f) == [k \in 1..Len(scales) |-> scales[k][f]]
DesignPos(c) ==
  IF ~c.design THEN 9
  ELSE LET g == G(c.in) IN
  IF Raises(c.in, g) # (c.raised # "") THEN 1
  ELSE IF c.raised # "" THEN 0
  ELSE LET ds == DesignScales(c.in, g)
           p == Params(c)
       IN IF Len(ds) # Len(c.scales) THEN 2
          ELSE IF Col(ds, "key") # Col(c.scales, "key") THEN 3
          ELSE IF Col(ds, "size") # Col(c.scales, "size") THEN 4
          ELSE IF Col(ds, "ratio") # Col(c.scales, "ratio") THEN 5
          ELSE IF Col(ds, "chunk") # Col(c.scales, "chunk") THEN 6
          ELSE IF p.encoding # c.params.outEnc \/ p.type # c.params.outType
                  \/ p.data_type # c.params.outDtype \/ p.block # c.params.block THEN 7
          ELSE 0

Init == tid \in 1..Len(Cases) /\ ph = 0
Next == ph = 0 /\ ph' = 1 /\ UNCHANGED tid
Spec == Init /\ [][Next]_vars

Emit == ph = 1 =>
        LET c == Cases[tid]
            cl == OracleClause(c)
        IN PrintT(<<"VERDICT", tid, IF cl = "" THEN "ok" ELSE "bad",
                    IF cl = "" THEN "ok" ELSE cl, DesignPos(c)>>)
=============================================================================
