SPECIFICATION Spec
CONSTANTS
  LengthCheck = TRUE
  StatusCheck = TRUE
  MaxFaults = 1
INVARIANT Emit
