--------------------------- MODULE Gen_Downscale ---------------------------
(* S->C for C07: the small scope as input points.  Every array over three    *)
(* abstract values {0, 1, 2} on every shape Z <= 2, Y <= 3, X <= 2 with at   *)
(* most MaxVox voxels, plus - when Sample > 0 - a random subset of Sample    *)
(* arrays of each larger shape of the scope (up to 2x3x2).  The harness maps *)
(* the abstract values to concrete values of each Neuroglancer data type     *)
(* and executes the real downscalers point by point; Trace_Downscale judges. *)
EXTENDS Naturals, Sequences, FiniteSets, TLC, Json, Randomization
CONSTANTS MaxVox, Sample
VARIABLE pt
Shapes == {<<1, Z, Y, X>> : Z \in 1..2, Y \in 1..3, X \in 1..2}
N(sh) == sh[2] * sh[3] * sh[4]
Arrays(sh) == IF N(sh) <= MaxVox THEN [1..N(sh) -> 0..2]
              ELSE IF Sample > 0 THEN RandomSubset(Sample, [1..N(sh) -> 0..2]) ELSE {}
Init == \E sh \in Shapes : \E d \in Arrays(sh) : pt = [shape |-> sh, data |-> d]
Next == UNCHANGED pt
Spec == Init /\ [][Next]_pt
Emit == PrintT(<<"BEH", ToJson(pt)>>)
=============================================================================
