#!/venv/bin/python
"""Regenerate /verif/MANIFEST.json from the table below (single source)."""
import json
import os

ROOT = os.path.dirname(os.path.dirname(os.path.abspath(__file__)))

BASELINE_OFF = ("cd /repo && env -u NEUROGLANCER_SCRIPTS_VERIF /venv/bin/python -m pytest -ra -q "
                "-p no:cacheprovider --timeout=900 --continue-on-collection-errors")

TRUST = ("TLC 1.8 + CommunityModules evaluate the specification faithfully; harness parsers only "
         "re-encode bytes/numbers (bit sequences, 16-bit halves) and take no decision; exhaustive "
         "inside the stated bounds, seeded sampling beyond them")

CHECKS = {
    "C04": dict(
        cat="model_checking", ref="5.C04",
        technique="TLA+ spec (ShardFormat oracle + ShardWriter design) model-checked by TLC; real .shard files trace-validated against the oracle; TLC-exported behaviours replayed on the real writer",
        text="TLC explores every subset and store order of the sharded writer design on a bounded parameter space and proves Design => WellFormedShard /\\ SpecLookup; every real dataset produced in the run (TLC-exported histories plus seeded random grids/triples/subsets/orders, both encodings and strategies) is re-encoded and judged by the same oracle operators (format-following reader written from the format text). Sessions with more than 16 shards per scale in raster orders, writer processes that end without close() (exit-handler flush), one accessor closed mid-session and continued into other shards, payloads handed over in a re-used mutable buffer.",
        note=TRUST + "; 'gzip' sub-encoding accepted in zlib or gzip framing."),
    "C05": dict(
        cat="model_checking", ref="5.C05",
        technique="TLA+ spec of the reorder buffer model-checked by TLC (state = function of stored set); store/close/reopen/fetch traces of the real accessor validated by the trace spec; exported permutations replayed",
        text="TLC proves on the bounded design that the writer state is a function of the stored set (all orders collapse), that read-back through both the format reader and the package's reader returns the stored payload and that never-stored ids yield no data; every exported behaviour (subset x permutation of small grids) and seeded larger histories are executed on the real accessor (both strategies), every grid position fetched through a fresh accessor, file hashes compared per group; verdicts from Trace_Shard. The same extra session classes as C04 (many shards, exit-handler flush, mid-session close, re-used buffers) are fetched back and compared per order group.",
        note=TRUST + "; zero-length payloads excluded."),
    "C01": dict(
        cat="model_checking", ref="5.C01",
        technique="TLA+ Grid spec (tiler design + OnGrid oracle) model-checked by TLC; Gen_Grid points replayed on the real volume-to-precomputed; recorded conversions (store_chunk coordinates, decoded voxels) trace-validated with an exact-rational value map",
        text="TLC proves the tiler design writes every voxel exactly once from the same coordinate with every write on-grid (sizes 1..5 x chunk sizes 1..4 per axis, 1-3 channels; the no-clamp deviation fails); the enumerated (size, chunk, channels) points and seeded tool-generated and sharded sub-process conversions (3-D, 4-D, RGB; all dtype pairs; header scaling, --ignore-scaling, --input-min/max, --mmap; deep/flat x gzip x raw/compressed_segmentation x sharded) are run through the real volume-to-precomputed, read back through a fresh accessor + PrecomputedIO, and judged by Trace_Grid (OnGrid, Unwritten, VoxelValue with an exact-rational Map, ConversionRaised, ExitCode). Directed classes: --ignore-scaling on every header class (slope only / intercept only / both; full load and --mmap), header scalings whose results need more than float32's 24-bit mantissa, float64 inputs up to 2^30. About one conversion in eight runs into a destination that already holds another volume's conversion. The per-axis tiling lemma (every voxel in exactly one chunk, for every size and chunk size) is proved with the TLA+ proof system (spec/proofs/Tiler1D, 100 obligations) and re-run by the check.",
        note=TRUST + "; exact-arithmetic inputs only (integer/dyadic data and scalings); --input-max rescaling judged for uint8/uint16 targets; uint32/uint64 upper saturation left to C11; sharded outputs and compressed_segmentation use cubic chunks/blocks."),
    "C02": dict(
        cat="model_checking", ref="5.C02",
        technique="TLA+ oracle (WellFormed/CSegDecode written from the format text) + relational encoder model-checked by TLC; TLC-enumerated arrays replayed on the real encoder; real encode/decode cases trace-validated against the oracle",
        text="TLC runs a relational compressed_segmentation encoder (any table order, sharing, placement, width, padding index) over every array of a bounded scope (chunks and blocks <= 2x2x2, 1-2 channels, uint32/uint64) and proves IsEncodingOf => WellFormed /\\ CSegDecode = array, and that the decoder automaton reads it back. Every real encoder output of the run is judged by the same oracle operators (a reader written from the format text, plus the package's own decoder): the TLC-enumerated scope plus seeded shapes 1..9, blocks 1..8 including non-cubic, every bit width 0..32, labels above 2^32 and 2^53, repeated tables. Multi-step histories on ONE PrecomputedIO object (several compressed_segmentation scales with DIFFERENT block sizes, several chunks of equal shape): the stored bytes are judged under the block size the info announces and the arrays returned by read_chunk are recorded only after the last call (aliasing). Label arrays are also handed to the encoder in big-endian byte order and in non-contiguous / Fortran / read-only memory layouts.",
        note=TRUST + "; padding voxels are unconstrained; the 32-bit index width is exercised by one 41^3-block case."),
    "C03": dict(
        cat="model_checking", ref="5.C03",
        technique="TLA+ state machine of the dataset I/O layer (OnGrid oracle, validator design) model-checked by TLC; TLC-generated behaviours replayed on real PrecomputedIO x accessors x codecs and validated by a stateful trace spec; validator judged as a decision function",
        text="TLC explores all write histories over valid and invalid candidate tuples on three infos and proves that only on-grid positions are stored, that the validator equals the oracle predicate and that a write touches only its own key; behaviours generated by TLC (invalid writes, reads, re-opens) run on the real PrecomputedIO over file (deep/flat x gzip) and sharded accessors, raw / compressed_segmentation / jpeg, all dtypes and 1-3 channels, with a final sweep through a fresh handle; every event is checked by Trace_ChunkStore (byte-exact read-your-writes, shape, dtype, bounded JPEG error); validate_chunk_coords is judged against OnGrid on ~10^4 structured and random 6-tuples per run. Datasets mixing encodings / block sizes between their scales, a dataset re-created in place after having been opened through the same accessor object (re-opens also on that same object), and arrays passed in a narrower safely-convertible type (values judged in the dataset's type). A second configuration without the operation counter in the state VIEW visits every reachable store state (histories of any length).",
        note=TRUST + "; JPEG tolerance constants (mean<=8, max<=64) are part of the spec; never-written reads unconstrained."),
    "C06": dict(
        cat="model_checking", ref="5.C06",
        technique="TLA+ per-axis octant-assembly model (NumPy assignment semantics, provenance) model-checked by TLC; TLC-exported outcome classes and real-generator infos replayed on the real pyramid code with poisoned np.empty; level and provenance traces validated by the trace spec",
        text="TLC explores the per-axis octant-assembly model (old sizes 1..40, old/new chunk in {1,2,4,8,16}, factor 1|2) and proves the outcome classes, Correct => level = global downscale (provenance and value level), the closed form and the 2-D factorisation; every class and infos from the real generator are run through the real compute_dyadic_scales twice with np.empty poisoned by two different patterns (3 downscaling methods, 1-3 channels, raw/compressed_segmentation, deep/flat/gzip/sharded) and each transition is judged by Trace_PyramidAssembly against the implementation's own downscaler applied to the whole stored previous level; provenance traces through recording reader/writer objects on coordinate-coded volumes. Source-fault class (a chunk of the preceding scale missing or damaged before the step: oracle:FailsInsteadOfWrongData), the compute-scales command-line entry point with its options, and the 'auto' method with an outside value (TLC applies the documented selection rule; the reference downscaler is built without get_downscaler). Downscaler objects are shared between pyramids of different data types; unprocessable infos go through compute-scales main(argv) (status 0 with a missing or wrong level is a violation); the all-in-one entry point runs with --type and the default method. The lemma ceil(ceil(n/a)/b) = ceil(n/(a*b)) is proved with the TLA+ proof system (spec/proofs/CeilHalving, 91 obligations) and re-run by the check.",
        note=TRUST + "; silent corruption is a verdict only for infos the real generator produced or pairs processable by design; hand-made incompatible pairs may raise."),
    "C07": dict(
        cat="model_checking", ref="5.C07",
        technique="TLA+ oracle (OutShape, Stride, Majority, exact BlockMean half-even with edge/constant completion) and pairwise half-sum design model-checked by TLC; TLC-enumerated small arrays and seeded arrays run on the real downscalers and judged by the trace spec",
        text="TLC proves that the pairwise half-sum design equals the exact BlockMean (half-even, edge/constant completion) and that InRange follows for all three methods on all small arrays (<= 3 per axis over {0,1,max}); all TLC-enumerated small-scope arrays and seeded arrays (shape 1..6 incl. odd and size-1 axes, 1-2 channels, the five Neuroglancer dtypes, type limits, all factor triples per method, four outside values) are run on the real downscalers and judged against OutShape, DType, InRange, BlockMean / Majority / Stride. 'auto' selection through get_downscaler with options, a type-limit block for every integer dtype, out-of-type outside values (weaker reading: only shape/dtype/range judged), and a deviation class computed by TLC (near = float64 rounding distance, gross = wrap-around/overflow) used for known-finding matching only. One downscaler object per (method, outside value, type) is re-used for arrays of every data type within a run.",
        note=TRUST + "; float32 data restricted to dyadic values with exactly representable means; known finding: uint64 averaging above 2^50 (float64 work type)."),
    "C08": dict(
        cat="model_checking", ref="5.C08",
        technique="TLA+ oracle ValidPyramid + exponent-space transcription of the generator model-checked by TLC; real fill_scales_for_dyadic_pyramid / generate-scales-info outputs judged by the trace spec, transcription compared as DRIFT",
        text="TLC evaluates ValidPyramid (distinct keys, size/resolution rule, factor steps, power-of-two chunk sizes near the target, last scale within two chunks, isotropy order and bound, every consecutive pair assemblable) on the exponent-space transcription of the generator over ~650k inputs (switch positions proved/refuted); the same input product (sizes to 10^9, rational resolutions to 40:1 and fractional, targets 2..256, max_scales, types/encodings) is fed to the real fill_scales_for_dyadic_pyramid and generate-scales-info and the real output (valid JSON, accepted by PrecomputedIO) is judged by ValidPyramid in Trace_ScaleGen.",
        note=TRUST + "; resolutions are small rationals x 10^s with exact ratios; only isotropy clauses (i) and (ii) of DESIGN 5.C08 are demanded; unsatisfiable encoder requests are not judged."),
    "C09": dict(
        cat="model_checking", ref="5.C09",
        technique="TLA+ definition of the compressed Morton code and routing model-checked by TLC (injective, bounded, monotone, mask algebra at reduced width); real get_cmc / shard key / file name results judged by the TLC trace spec on bit sequences",
        text="TLC proves on all grids <= 6^3 (+ lines to 64) that the specification's compressed Morton code is injective, bounded and monotone, and that the package's uint64 mask arithmetic (transcribed at width 8) equals the oracle routing for every bit triple with total 0..12; the real get_cmc is then executed on every position of those grids including the outer boundary, negative and off-lattice positions, on sampled grids up to 2^21 per axis, and the real shard/minishard keys and file names for triples with totals 0..70; TLC compares every result with the oracle. Off-lattice origins on one, two and three axes at once; routing is also judged on the ShardSpec objects the accessors build from an info file (writer path and reader path).",
        note=TRUST + "; only integer coordinates are offered."),
    "C10": dict(
        cat="model_checking", ref="5.C10",
        technique="TLA+ decoder parse automaton + field-mutation operators model-checked by TLC with action coverage; TLC-built mutant buffers and valid encodings replayed on the real decoders; recorded decode outcomes (incl. PIL facts for JPEG) trace-validated",
        text="TLC explores the compressed_segmentation parse automaton on every (structural field x boundary value) mutant of bounded valid encodings, and the raw / JPEG wrapper automata over all size / PIL fact combinations, proving a total outcome in {Ok, Err} and Valid => Ok(CSegDecode) (the code's former deviation positions are shown to violate this). All TLC-built mutants, TLC-built valid encodings (incl. non-cubic blocks) and seeded corrupted byte strings (random, truncations, bit/byte/word edits, inserts, request mismatches) for raw, compressed_segmentation and jpeg are decoded by the real code under a 5 s alarm and judged by TLC: array of the requested shape and dtype or InvalidFormatError; valid data never rejected or mis-decoded.",
        note=TRUST + "; 'never hangs' is a timeout on executed inputs; JPEG pixel decoding is an environment fact reported by PIL; 'valid' is the strict canonical reading so a decoder is not blamed for rejecting exotic layouts, and lenient right-shaped results on malformed bytes are allowed."),
    "C11": dict(
        cat="model_checking", ref="5.C11",
        technique="TLA+ oracle Convert (nearest representable, ties-to-even, saturating) on exact bit-sequence values, validated by TLC on scaled-down types; real get_chunk_dtype_transformer results for all dtype pairs, both buffer modes and memory layouts judged by the TLC trace spec",
        text="TLC proves on scaled-down types (3- and 4-bit signed/unsigned integers, a toy float) that the oracle Convert is the nearest-representable function with ties to even, monotone, idempotent and saturating; the real transformer is then run on all (int8..uint64, float32, float64) x (uint8, uint16, uint32, uint64, float32) pairs with anchor values (limits of both types +- {0, 1/2, 1, 3/2}, 2^24, 2^53 +- 1, halves) and random values, in both preserve_input modes and on contiguous, strided, Fortran-ordered and read-only inputs; input bits before/after and output bits are judged by TLC (Nearest, InputModified, ModeDependent, Raised). Every multi-byte input type also runs in non-native byte order (transformer built from the swapped dtype, swapped chunk, or both).",
        note=TRUST + "; exact values are obtained from float.hex()/int (no decimal rounding)."),
    "C12": dict(
        cat="model_checking", ref="5.C12",
        technique="TLA+ state machine of the file accessor (paths, gzip/MIME rules, probe order, ghost 'latest' variables) model-checked by TLC; TLC-generated and random store histories replayed on real accessors and validated step by step by a stateful trace spec; confinement probes for both file accessors",
        text="TLC explores all store histories up to the bound under the four writer configurations and proves LastWriteWins / NoOverwrite / PathsDocumented for the design (and shows the mixed-MIME deviation breaks them); TLC-simulated behaviours and longer random histories run on real FileAccessor objects, and after every step the directory tree (strict independent gzip inflate), every name and every chunk through all four reader configurations are recorded and checked by Trace_FileStore; path-confinement probes (.., nested .., absolute) for FileAccessor and ShardedFileAccessor. Names include two siblings that differ only in their last extension; payload versions include a same-length overwrite. A second configuration without the operation counter in the state VIEW visits every reachable storage state (histories of any length).",
        note=TRUST + "; known finding: same name stored with MIME types of different compressibility (see known_findings.json)."),
    "C13": dict(
        cat="model_checking", ref="5.C13",
        technique="TLA+ command state machine (Pipeline) model-checked by TLC; conversion programs built by the real tools and run as sub-processes (incl. loopback HTTP and sharded sources); per-command snapshots judged by the stateful trace spec",
        text="TLC explores the command-level design (one action per documented command, abstract contents) and proves ConvertPreserves, SourceUntouched and SuccessMeansComplete on every program of the bounded alphabet; 67 conversion classes (same type across encodings, raw<->compressed_segmentation, all widenings, rounding/clipping, unsharded<->sharded in every pairing, --copy-info, 2-3 channels, fewer destination scales, other chunk sizes, labels beyond 2^31/2^53/2^63, HTTP sources, repeated conversion) are built by the real tools and converted by convert-chunks as a real sub-process; destination = Convert(source) at every scale and chunk, source tree hash unchanged, exit 0 => complete - judged by Trace_Pipeline. Every declared chunking of every scale is judged; sharded destinations are re-read by a format-following reader in TLC (ConvertSpecReaderDiffers), also with per-scale different sharding specs; sources include remote (loopback HTTP) sharded multi-scale datasets; environment classes obstruct chunk / shard / scale paths; function-API conversion pairs run in one interpreter.",
        note=TRUST + "; a non-zero exit makes no claim on the destination (recorded as DRIFT); voxel equality is decided by TLC on exactly re-encoded, interned arrays."),
    "C14": dict(
        cat="model_checking", ref="5.C14",
        technique="TLA+ model of the HTTP client request sequence x server fault behaviours model-checked by TLC; TLC-exported fault schedules replayed against a loopback server implementing the documented serving rules; fetch results validated by the trace spec against local reads",
        text="TLC explores every placement of up to two server faults (404, 5xx, short/long/ignored range, dropped connection) over the request sequence of plain, .shard and legacy .index/.data fetches and proves the client design never returns wrong bytes (and that removing the length check or raise_for_status breaks this); every exported schedule is replayed through get_accessor_for_url against a Range-capable loopback server serving real datasets written by the real writers (URL spellings with/without trailing slash, precomputed:// prefix, empty path), and a fault-free sweep fetches every info and chunk position of many datasets over HTTP and locally; Trace_HttpRead judges WrongBytes, MissingNotError, FaultFreeFailed, PlainErrorClass, Dispatch. Multi-scale sharded datasets are read through ONE HTTP accessor in interleaved order (per-scale reader state must not leak). Pyramids whose scales share sharding parameters and chunk size are read through one accessor in both orders.",
        note=TRUST + "; the loopback server is the environment model of docs/serving-data.rst (flat->deep rewrite, gzip_static, Range/HEAD); a never-stored chunk may be an error or zero bytes."),
    "C15": dict(
        cat="model_checking", ref="5.C15",
        technique="TLA+ Orientation spec (documentation-derived SrcIndex oracle + slice-window design with deviation switch) model-checked by TLC; real slices-to-precomputed conversions of provenance-coded stacks trace-validated voxel by voxel",
        text="TLC proves on 48 codes x sizes <= 3x4x5 x chunk depths 1..6 that the documentation-derived SrcIndex is a bijection consistent with the letter semantics and that the slice-window design places every pixel exactly once (the 'minus1' stop deviation fails); real slices-to-precomputed runs for all 48 codes x slice-count classes (fewer than / equal to / multiple of / not a multiple of the chunk depth) x pixel types, PNG/TIFF, grey/RGB, 1-3 directories and storage options (incl. sharded sub-processes) are judged voxel by voxel and channel by channel by Trace_Orientation. Empty (all-black) slices are part of the input space: whole chunks of zeros must still be written. Entry points: command line in-process, real sub-process, and the function API called repeatedly in one process; stacks mixing 8- and 16-bit slices; invalid (short) stacks must be refused (oracle:InvalidStackAccepted).",
        note=TRUST + "; provenance-coded stacks <= 5x5x7 voxels x 6 channels; wall-clock limit per conversion stands in for 'never hangs'."),
    "C16": dict(
        cat="model_checking", ref="5.C16",
        technique="TLA+ Affine spec (centre/corner identity, resolution = column norm, compact form round trip) model-checked by TLC; real --generate-info / nibabel_image_to_info output for rational affines re-encoded as exact rationals and judged by the trace spec",
        text="TLC proves the centre/corner identity for the design formulas on every voxel for the 48 signed permutations (plus rational rotations and a Pythagorean shear) and that the probe voxels suffice (the 'plus' and 'none' half-shift deviations fail); the real volume-to-precomputed --generate-info and nibabel_image_to_info outputs for rational affines (signed permutations x anisotropic voxel sizes, rotations, shears, translations; 3-D/4-D/RGB; 10 stored dtypes; header scaling; sharding option strings) are re-encoded as exact rationals and judged (Size, Channels, DataType, Sharding, Resolution, Placement, NotRational); the compact URL form is round-tripped. Files whose header pixdim disagrees with the sform; four generations per case, two of them on one loaded image object; rerun histories of --generate-info on one destination (pair / transform only / info only present: RerunDescribesVolume, RerunRefusalKeepsPair).",
        note=TRUST + "; rational representatives only (irrational column norms are outside the decided domain); floats snapped to the unique rational with denominator <= 4096 within 1e-9."),
    "C17": dict(
        cat="model_checking", ref="5.C17",
        technique="TLA+ spec (Mesh: format/reader oracle, winding, mm->nm, VTK line grammar automaton, fragment-link tree) model-checked by TLC; TLC-enumerated reader inputs/round-trip/winding instances replayed on the real code; recorded real files, arrays, exceptions and directory trees trace-validated by Trace_Mesh",
        text="TLC model-checks the mesh reader automaton against the format oracle on structurally enumerated inputs (declared count 0..3 and huge counts, every body length, boundary index values; every exit reachable), the writer layout/round trip on float32 bit patterns, and the winding identity on tetrahedra under all 48 signed permutation matrices plus shears and singular maps; the deviating switch positions (bound '>', struct.error on short header, no flip) are shown to violate. Every enumerated case is executed on the real reader/writer/affine transform, and seeded real runs (save->file->read, affine transforms with det >0/<0/=0, mesh-to-precomputed on nibabel GIfTI files incl. sub-processes, VTK export with 0-3 attribute sets, link-mesh-fragments trees, random/damaged byte strings) are re-encoded and judged clause by clause by the same oracle in TLC. Unit-change transforms (10^-6..10^6, both determinant signs): the winding rule is decided on the integer matrix, the scale travels as a rational. Affine cases also run on read-only arrays and on arrays already passed through the function once; integer-typed GIfTI point sets go through mesh-to-precomputed.",
        note=TRUST + "; geometry uses integer/dyadic coordinates and matrices so IEEE arithmetic is exact; near-zero determinants with uncertain floating-point sign are not decided; gzip-stored files judged on decompressed content."),
    "C18": dict(
        cat="fault_enumeration", ref="5.C18",
        technique="TLA+ refinement of store operations into I/O steps with Fail/Crash actions model-checked by TLC; real operations re-run once per (I/O call, errno) and per crash point under an in-process interposer, every HTTP request faulted once; outcomes classified and judged by the TLC trace spec",
        text="TLC enumerates every step x {failure, crash before, torn write} of the file-store and shard-close designs and proves the three clauses of the adopted reading (a failed step ends in an error or in a true postcondition; other names untouched; after a crash every chunk is Correct, Old, Absent or detectably Invalid - and shows that writing the shard index first would break this). On the real code a dry run under an interposer (open/write/read/seek/close/stat/mkdir/unlink below the library) lists the I/O calls of each scenario (file accessor deep/flat x gzip x raw/compressed_segmentation: new chunk, overwrite, fetch, info store/fetch/exists; sharded accessor in-memory/on-disk x raw/gzip: write session + close, fetch, file API), then one injected run per (call, plausible errno) and per crash point is made; a fresh accessor + PrecomputedIO reads every chunk afterwards and TLC classifies the results. HTTP: every single fault placement on plain, .shard and legacy fetches. Command-line level: every writing tool (volume-to-precomputed incl. --generate-info, generate-scales-info, the all-in-one pyramid, slices plain/sharded, compute-scales, convert-chunks, mesh-to-precomputed, link-mesh-fragments) runs as a real sub-process under the interposer, exit phase included, with the dataset directory AND the tool's TMPDIR enumerated; in-process sharded sessions with one/two minishards and fully out-of-order stores; completeness of the enumeration itself is audited with strace (system calls on the enumerated directories vs the interposer log). Fault modes: errno failure, crash, torn write and POSIX short write (partial data, then error for buffered files / short count for raw ones). The sharded writer with stores that fail half-way is also model-checked (ShardWriterFaults: a close that returns has written every accepted chunk; the switch without the broken-flag must fail).",
        note=TRUST + "; crash model = prefix of the write sequence (last write possibly torn), directory entries persist; OS-level reordering and power-loss of unsynced data are not modelled; clause (1) counts OSError subclasses (incl. requests exceptions, ShardedIOError) and DataAccessError as I/O errors."),
    "C19": dict(
        cat="model_checking", ref="5.C19",
        technique="TLA+ command state machine model-checked by TLC on every program of bounded length; TLC-exported witness programs replayed as real sub-processes; stateful trace validation of per-command snapshots (oracle -> VIOLATION, design -> DRIFT)",
        text="TLC explores the command-level design (GenInfo, GenScales, VolToPrecomputed, ComputeScales, ConvertChunks, ScaleStats, AllInOne, hand edit of an info) on every program of length <= 6 over two directories and option alphabets and proves AllInOneEqualsSteps, RepeatIsNoop, SuccessMeansComplete, SourceUntouched (both deviation switches fail as required); TLC-exported witness programs (one per abstract situation) are run as real sub-processes on synthetic volumes (uint8..uint64, float32, int16/float64, 2-3 channels, RGB, 1-3 scales, four file layouts, sharded) and every per-command snapshot (exit code, info, all decoded chunks, tree hashes) is judged by Trace_Pipeline. Programs include slices-to-precomputed, header-scaled inputs with --ignore-scaling, --input-max option sets, the all-in-one command on existing infos, repeated generate-scales-info with other parameters (SuccessButWrongInfo) and obstructed destinations.",
        note=TRUST + "; content ids are abstract in the model, voxel equality is decided by TLC on exactly re-encoded arrays; stratified seeded sample of exported programs (33 quick / 600 thorough)."),
    "C20": dict(
        cat="model_checking", ref="5.C20",
        technique="TLA+ oracle for the human-readable formatter on bit-sequence counts (Stats) and for the statistics report (Pipeline); integer bands through the real readable_count and scale-stats output of real produced datasets judged by TLC trace specs",
        text="The real readable_count is run on every count 0..20000, +-300 around m*1024^k (m in {1,10,100,1000,1024}, k <= 6), powers of two up to 2^70 +- 2 and a stride sample; the tokenised string is judged by TLC against the contract (digits[.digit] SP prefix; >= 2 significant digits when count >= 10; <= 6 characters up to 2^60; within half a unit of the last shown digit). scale-stats is run after real conversions (unsharded and sharded) and its stdout, tokenised losslessly, is judged by Trace_Pipeline against the chunk files / minishard entries actually on disk and the decoded sizes (per scale and totals). Report programs cover axes of size 1, n*chunk-1, n*chunk, n*chunk+1 and infos with several chunk sizes per scale (one line per chunking, totals over all).",
        note=TRUST + "; chunk counts are compared for completely produced scales; sizes through the shown string within rounding distance."),
}

# classes added while answering seeded-change rounds 4-5 (appended to the texts above)
EXTRA_TEXT = {
    "C01": " Windows with a bound of exactly 0, of width zero and with --input-min larger than --input-max (a decreasing map).",
    "C02": " Labels at the 32-bit boundary (2^32 - 1, 2^32, 2^32 + 1) in uint64 volumes.",
    "C03": " Non-cubic compressed_segmentation blocks with sparse contents; sharded datasets with different index / data encodings. The same coordinates are offered to several scales through one handle.",
    "C04": " Chunk coordinates handed over as numpy integer scalars. Several scales of one dataset written through one accessor object with interleaved stores. Identifiers with more than 53 significant bits (2^18 / 2^20 chunks per axis), shard-bit counts beyond the identifier width, different encodings for the minishard index and the data.",
    "C06": " Volumes with empty margins, one-voxel-thick axes, multi-channel label images (compressed_segmentation pyramids whose channels share label sets) and uint64 volumes with values between 2^53 and 2^64-1 on odd sizes (a level must not depend on the chunking).",
    "C07": " Factors 4, 5, 6, 8 for stride and majority; downscalers re-created from one shared options dictionary.",
    "C08": " Clause IsotropyClosest (each axis within sqrt(2) of the finest once all axes are halved, from the generator's docstring); the IO layer's validator must accept the generated chunk grid. Requests for compressed_segmentation on narrow types with a block size in the description; voxel sizes in sixteenths of a nanometre.",
    "C09": " Widest grids (62-64 identifier bits); numpy integer coordinates; the sharding spec as the --sharding option path writes it (to_dict) and an accessor reads it back.",
    "C10": " One decoder object decodes a valid chunk first and is then asked for the same / other bytes with another chunk size. Other image containers (1-bit, 16-bit, float samples) offered to the JPEG decoder; chunks with 4-7 channels and every cut inside the channel offset table.",
    "C11": " The encoders' own casts (foreign input types: refusal or the Convert() value, never wrapped). Values a hair off a rounding tie (a float32 detour would land on the tie).",
    "C12": " Dataset directory names with '+', space and '%' behind file:// URLs; the options dictionary built by the real argument parser (every documented compression level and option spelling). A scale key with underscore, dash and dot; a payload that is itself a complete gzip stream. The accessor dispatcher is covered by its own module (Dispatch.tla, complete model): metadata states x unreadable metadata x URL forms x sharding option x HTTP readers x sessions; TLC-generated, directed (decision table with a store behind every row) and weighted random life-cycle histories run on a real directory + loopback server and are judged by Trace_Dispatch (ReadYourWrites, NoSilentMisroute, NoStaleRead through freshly dispatched accessors).",
    "C13": " float32 -> uint32 / uint64 conversions with fractional and negative values. In fault-free programs a conversion the design accepts must succeed (oracle:ConvertFailed); per-scale different compressed_segmentation block sizes. Failing source chunk reads, --copy-info into a destination that holds another dataset, all-zero chunks, supervoxel volumes (more than 256 labels of uneven frequency inside one compressed_segmentation block).",
    "C14": " Pyramids whose scales share the bit triple but differ in encodings. Multi-scale sessions on pyramids that share sharding parameters (both read orders); server behaviour ErrorPageFit (an error status whose page has exactly the requested length) at every request position.",
    "C15": " compressed_segmentation and sharded destinations, blank slices, mixed 8/16-bit stacks, invalid stacks (must be refused), function-API conversions in one process, directory names whose sort order differs from the command-line order.",
    "C16": " Voxel sizes that are not whole nanometres; declared spatial units; multi-file histories through the function API with the default and with one shared options dictionary; same-path reruns in one process.",
    "C17": " Integer GIfTI point sets, read-only / re-used arrays, link tables with repeated labels and names colliding with existing files (LinksConflictClause).",
    "C18": " A re-exported sharded dataset with stale legacy shards next to it (no fault may make the reader fall back to them). The interposer emulates buffered files (small writes surface at flush / close / finalisation, finaliser errors are swallowed as CPython does) and a short-write mode; the tools' TMPDIR is enumerated as well; the metadata file is a store target; 14 command-line scenarios (every writing tool) with a strace audit of the enumeration; JPEG-encoded stores; one-minishard sharded sessions (ShardWriterFaults model with the Sticky switch); after a faulted HTTP fetch every other chunk is re-read through the same accessor.",
    "C19": " All-in-one vs steps with --input-min together with --input-max; volumes that are exact multiples of the chunk size. Every command of a fault-free program that the design accepts must succeed (oracle:<Op>Failed); mesh-to-precomputed and link-mesh-fragments are command actions of the model and witness programs with them are replayed. Sharded programs through the real command line on non-power-of-two chunk grids with several --sharding triples; --encoding compressed_segmentation without --type; repeated / obstructed generate-scales-info.",
    "C20": " scale-stats must succeed on fault-free programs (oracle:StatsFailed); slice stacks of n*chunk+1 on every axis; thick-slice volumes whose chunk sizes shrink between scales. Failed-then-re-run compute-scales histories, destinations listing more / fewer scales than the source, sharded destinations with an obstructed shard path, statistics through the function API several times in one process.",
}

NOT_APPLICABLE_REASONS = {}


def not_applicable():
    out = []
    for k in range(1, 21):
        pid = "C%02d" % k
        if pid not in CHECKS:
            out.append({"property_id": pid,
                        "reason": NOT_APPLICABLE_REASONS.get(
                            pid, "not claimed yet: the specification module and conformance driver "
                                 "for this property are still under construction (DESIGN.md section 11)")})
    return out


def main():
    checks = []
    for pid in sorted(CHECKS):
        c = CHECKS[pid]
        checks.append({
            "property_id": pid,
            "quick_cmd": "./check %s --tier quick" % pid,
            "thorough_cmd": "./check %s --tier thorough" % pid,
            "evidence_file": "/verif/evidence/%s.json" % pid,
            "replay_cmd_template": "./check %s --replay {path}" % pid,
            "engine": "tlc-conformance",
            "level_claimed": {"category": c["cat"], "text": c["text"] + EXTRA_TEXT.get(pid, ""), "design_ref": "DESIGN.md " + c["ref"]},
            "level_note": c["note"],
            "technique": c["technique"],
        })
    m = {
        "version": 1,
        "setup_cmd": "cd /verif && ./tools/setup.sh",
        "hooks": {
            "guard": "NEUROGLANCER_SCRIPTS_VERIF",
            "enable": "no source hooks: the checks bind at public API boundaries with run-time wrappers in /verif/harness (the guard variable is set by ./check but nothing in /repo reads it)",
            "baseline_off_cmd": BASELINE_OFF,
            "source_commits": [],
            "add_only": True,
        },
        "engines": [{
            "name": "tlc-conformance", "path": "/verif/check",
            "serves_properties": sorted(CHECKS),
            "kind_free_text": "explicit TLA+ specification (/verif/spec) checked by TLC; bound to /repo by replaying TLC-exported behaviours into the real code and validating recorded traces of the real code against trace specifications",
        }],
        "checks": checks,
        "not_applicable": not_applicable(),
        "notes": "See DESIGN.md. Exit 0 pass / 1 VIOLATION / 2 machinery failure. known_findings.json lists fixed and known findings.",
    }
    with open(os.path.join(ROOT, "MANIFEST.json"), "w") as f:
        json.dump(m, f, indent=1)
    print("wrote MANIFEST.json with", len(checks), "checks")


if __name__ == "__main__":
    main()
