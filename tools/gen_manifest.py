#!/venv/bin/python
"""Regenerate /verif/MANIFEST.json from the table below (single source)."""
import json
import os

ROOT = os.path.dirname(os.path.dirname(os.path.abspath(__file__)))

BASELINE_OFF = ("cd /repo && env -u NEUROGLANCER_SCRIPTS_VERIF /venv/bin/python -m pytest -ra -q "
                "-p no:cacheprovider --timeout=900 --continue-on-collection-errors")

TRUST = ("TLC 1.8 + CommunityModules evaluate the specification faithfully; harness parsers only "
         "re-encode bytes/numbers (bit sequences, 16-bit halves) and take no decision; exhaustive "
         "inside the stated bounds, seeded sampling beyond them")

CHECKS = {
    "C04": dict(
        cat="model_checking", ref="5.C04",
        technique="TLA+ spec (ShardFormat oracle + ShardWriter design) model-checked by TLC; real .shard files trace-validated against the oracle; TLC-exported behaviours replayed on the real writer",
        text="TLC explores every subset and store order of the sharded writer design on a bounded parameter space and proves Design => WellFormedShard /\\ SpecLookup; every real dataset produced in the run (TLC-exported histories plus seeded random grids/triples/subsets/orders, both encodings and strategies) is re-encoded and judged by the same oracle operators (format-following reader written from the format text).",
        note=TRUST + "; 'gzip' sub-encoding accepted in zlib or gzip framing."),
    "C05": dict(
        cat="model_checking", ref="5.C05",
        technique="TLA+ spec of the reorder buffer model-checked by TLC (state = function of stored set); store/close/reopen/fetch traces of the real accessor validated by the trace spec; exported permutations replayed",
        text="TLC proves on the bounded design that the writer state is a function of the stored set (all orders collapse), that read-back through both the format reader and the package's reader returns the stored payload and that never-stored ids yield no data; every exported behaviour (subset x permutation of small grids) and seeded larger histories are executed on the real accessor (both strategies), every grid position fetched through a fresh accessor, file hashes compared per group; verdicts from Trace_Shard.",
        note=TRUST + "; zero-length payloads excluded."),
    "C09": dict(
        cat="model_checking", ref="5.C09",
        technique="TLA+ definition of the compressed Morton code and routing model-checked by TLC (injective, bounded, monotone, mask algebra at reduced width); real get_cmc / shard key / file name results judged by the TLC trace spec on bit sequences",
        text="TLC proves on all grids <= 6^3 (+ lines to 64) that the specification's compressed Morton code is injective, bounded and monotone, and that the package's uint64 mask arithmetic (transcribed at width 8) equals the oracle routing for every bit triple with total 0..12; the real get_cmc is then executed on every position of those grids including the outer boundary, negative and off-lattice positions, on sampled grids up to 2^21 per axis, and the real shard/minishard keys and file names for triples with totals 0..70; TLC compares every result with the oracle.",
        note=TRUST + "; only integer coordinates are offered."),
    "C12": dict(
        cat="model_checking", ref="5.C12",
        technique="TLA+ state machine of the file accessor (paths, gzip/MIME rules, probe order, ghost 'latest' variables) model-checked by TLC; TLC-generated and random store histories replayed on real accessors and validated step by step by a stateful trace spec; confinement probes for both file accessors",
        text="TLC explores all store histories up to the bound under the four writer configurations and proves LastWriteWins / NoOverwrite / PathsDocumented for the design (and shows the mixed-MIME deviation breaks them); TLC-simulated behaviours and longer random histories run on real FileAccessor objects, and after every step the directory tree (strict independent gzip inflate), every name and every chunk through all four reader configurations are recorded and checked by Trace_FileStore; path-confinement probes (.., nested .., absolute) for FileAccessor and ShardedFileAccessor.",
        note=TRUST + "; known finding: same name stored with MIME types of different compressibility (see known_findings.json)."),
}

NOT_APPLICABLE_REASONS = {}


def not_applicable():
    out = []
    for k in range(1, 21):
        pid = "C%02d" % k
        if pid not in CHECKS:
            out.append({"property_id": pid,
                        "reason": NOT_APPLICABLE_REASONS.get(
                            pid, "not claimed yet: the specification module and conformance driver "
                                 "for this property are still under construction (DESIGN.md section 11)")})
    return out


def main():
    checks = []
    for pid in sorted(CHECKS):
        c = CHECKS[pid]
        checks.append({
            "property_id": pid,
            "quick_cmd": "./check %s --tier quick" % pid,
            "thorough_cmd": "./check %s --tier thorough" % pid,
            "evidence_file": "/verif/evidence/%s.json" % pid,
            "replay_cmd_template": "./check %s --replay {path}" % pid,
            "engine": "tlc-conformance",
            "level_claimed": {"category": c["cat"], "text": c["text"], "design_ref": "DESIGN.md " + c["ref"]},
            "level_note": c["note"],
            "technique": c["technique"],
        })
    m = {
        "version": 1,
        "setup_cmd": "cd /verif && ./tools/setup.sh",
        "hooks": {
            "guard": "NEUROGLANCER_SCRIPTS_VERIF",
            "enable": "no source hooks: the checks bind at public API boundaries with run-time wrappers in /verif/harness (the guard variable is set by ./check but nothing in /repo reads it)",
            "baseline_off_cmd": BASELINE_OFF,
            "source_commits": [],
            "add_only": True,
        },
        "engines": [{
            "name": "tlc-conformance", "path": "/verif/check",
            "serves_properties": sorted(CHECKS),
            "kind_free_text": "explicit TLA+ specification (/verif/spec) checked by TLC; bound to /repo by replaying TLC-exported behaviours into the real code and validating recorded traces of the real code against trace specifications",
        }],
        "checks": checks,
        "not_applicable": not_applicable(),
        "notes": "See DESIGN.md. Exit 0 pass / 1 VIOLATION / 2 machinery failure. known_findings.json lists fixed and known findings.",
    }
    with open(os.path.join(ROOT, "MANIFEST.json"), "w") as f:
        json.dump(m, f, indent=1)
    print("wrote MANIFEST.json with", len(checks), "checks")


if __name__ == "__main__":
    main()
