#!/bin/sh
# Offline setup: nothing to build - verify the tool chain and parse every spec module.
set -e
cd "$(dirname "$0")/.."
test -x /venv/bin/python
test -f /opt/veriftools/tla/tla2tools.jar
/venv/bin/python -c "import numpy, nibabel, PIL, skimage, requests, neuroglancer_scripts"
mkdir -p evidence
fail=0
for f in spec/*.tla; do
  out=$(cd spec && java -cp /opt/veriftools/tla/tla2tools.jar:/opt/veriftools/tla/CommunityModules-deps.jar tla2sany.SANY "$(basename "$f")" 2>&1) || true
  if echo "$out" | grep -q -E "Semantic errors|Parse Error|Fatal errors|Could not"; then
    echo "SANY FAILED: $f"; echo "$out" | tail -20; fail=1
  fi
done
[ $fail -eq 0 ] && echo "setup ok: $(ls spec/*.tla | wc -l) modules parse"
[ $fail -ne 0 ] && echo "WARNING: some modules do not parse (the checks using them will report a machinery failure)"
exit 0
