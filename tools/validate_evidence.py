#!/usr/bin/env python3-vt
import json, sys, glob, jsonschema
schema = json.load(open("/root/.vp/EVIDENCE.schema.json"))
ok = True
for p in sorted(glob.glob("/verif/evidence/C*.json")):
    try:
        jsonschema.validate(json.load(open(p)), schema)
        print("valid", p)
    except Exception as e:
        ok = False
        print("INVALID", p, str(e)[:300])
m = json.load(open("/verif/MANIFEST.json"))
jsonschema.validate(m, json.load(open("/root/.vp/MANIFEST.schema.json")))
print("manifest valid")
sys.exit(0 if ok else 1)
