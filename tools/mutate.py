#!/venv/bin/python
"""tools/mutate.py - mechanical mutation campaign (development aid, not part of a check).

  tools/mutate.py list                      # all candidate mutants of /repo/src as JSON lines
  tools/mutate.py run OUT.jsonl [N] [SEED]  # sample N candidates (stratified by file), for each:
                                            # scratch worktree, test suite, and - if the suite still
                                            # passes - the quick checks mapped to the file

Mutation operators (single-token, single-line): comparison swaps, +/- and *//, and/or, True/False,
integer literal +-1, `not` removal, negated `if`/`while` conditions, call statements replaced by `pass`,
`raise` statements replaced by `pass`.  Lines inside logging / argparse help / docstrings are skipped.
"""
import ast
import json
import os
import random
import subprocess
import sys
import tempfile
import shutil

REPO = "/repo"
SRC = "src/neuroglancer_scripts"

FILE_CHECKS = {
    "_compressed_segmentation.py": ["C02", "C10", "C03"],
    "_jpeg.py": ["C03", "C10"],
    "accessor.py": ["C12", "C14", "C18"],
    "chunk_encoding.py": ["C03", "C10", "C02"],
    "data_types.py": ["C11", "C01"],
    "downscaling.py": ["C07", "C06"],
    "dyadic_pyramid.py": ["C06", "C08", "C19"],
    "file_accessor.py": ["C12", "C18", "C03"],
    "http_accessor.py": ["C14", "C18"],
    "mesh.py": ["C17"],
    "precomputed_io.py": ["C03", "C01", "C19"],
    "sharded_base.py": ["C04", "C05", "C09", "C14"],
    "sharded_file_accessor.py": ["C04", "C05", "C18"],
    "sharded_http_accessor.py": ["C14", "C18"],
    "transform.py": ["C16", "C17"],
    "utils.py": ["C20", "C16", "C08"],
    "volume_reader.py": ["C01", "C16", "C19"],
    "scripts/compute_scales.py": ["C06", "C19"],
    "scripts/convert_chunks.py": ["C13", "C20"],
    "scripts/generate_scales_info.py": ["C08", "C19"],
    "scripts/link_mesh_fragments.py": ["C17", "C19"],
    "scripts/mesh_to_precomputed.py": ["C17", "C19"],
    "scripts/scale_stats.py": ["C20"],
    "scripts/slices_to_precomputed.py": ["C15"],
    "scripts/volume_to_precomputed.py": ["C01", "C16", "C19"],
    "scripts/volume_to_precomputed_pyramid.py": ["C19"],
}

CMP = {ast.Lt: "<", ast.LtE: "<=", ast.Gt: ">", ast.GtE: ">=", ast.Eq: "==", ast.NotEq: "!="}
CMP_SWAP = {"<": "<=", "<=": "<", ">": ">=", ">=": ">", "==": "!=", "!=": "=="}
BIN = {ast.Add: ("+", "-"), ast.Sub: ("-", "+"), ast.Mult: ("*", "//"), ast.FloorDiv: ("//", "*"),
       ast.LShift: ("<<", ">>"), ast.RShift: (">>", "<<"), ast.BitAnd: ("&", "|"), ast.BitOr: ("|", "&")}


def skip_line(text):
    t = text.strip()
    return (t.startswith(("logger.", "logging.", "warnings.", "print(", "help=", "description=", '"', "'", "#", "@"))
            or "add_argument" in t or "help=" in t or "__all__" in t or "import " in t or "__name__" in t)


class Finder(ast.NodeVisitor):
    def __init__(self, lines):
        self.lines = lines
        self.out = []
        self.skip_depth = 0

    def add(self, lineno, col, end_col, new, op):
        text = self.lines[lineno - 1]
        if skip_line(text):
            return
        self.out.append({"line": lineno, "col": col, "end": end_col, "new": new, "op": op,
                         "old": text[col:end_col]})

    def between(self, left, right, old, new, op):
        """operator token between two nodes on one line"""
        if left.end_lineno != right.lineno:
            return
        ln = left.end_lineno
        seg = self.lines[ln - 1][left.end_col_offset:right.col_offset]
        k = seg.find(old)
        if k < 0 or seg.strip(" ()") != old:
            return
        c = left.end_col_offset + k
        self.add(ln, c, c + len(old), new, op)

    def visit_Call(self, node):
        # do not mutate inside logging / argparse calls
        f = node.func
        name = ""
        if isinstance(f, ast.Attribute):
            name = f.attr
            base = f.value.id if isinstance(f.value, ast.Name) else ""
            if base in ("logger", "logging", "warnings", "parser", "group") or name in ("add_argument", "format"):
                return
        self.generic_visit(node)

    def visit_Compare(self, node):
        if len(node.ops) == 1 and type(node.ops[0]) in CMP:
            old = CMP[type(node.ops[0])]
            self.between(node.left, node.comparators[0], old, CMP_SWAP[old], "cmp")
        self.generic_visit(node)

    def visit_BinOp(self, node):
        if type(node.op) in BIN and not (isinstance(node.left, ast.Constant) and isinstance(node.left.value, str)):
            old, new = BIN[type(node.op)]
            self.between(node.left, node.right, old, new, "arith")
        self.generic_visit(node)

    def visit_BoolOp(self, node):
        old = "and" if isinstance(node.op, ast.And) else "or"
        new = "or" if old == "and" else "and"
        self.between(node.values[0], node.values[1], old, new, "bool")
        self.generic_visit(node)

    def visit_UnaryOp(self, node):
        if isinstance(node.op, ast.Not) and node.lineno == node.operand.lineno:
            self.add(node.lineno, node.col_offset, node.operand.col_offset, "", "not")
        self.generic_visit(node)

    def visit_Constant(self, node):
        if node.lineno != node.end_lineno:
            return
        if node.value is True or node.value is False:
            self.add(node.lineno, node.col_offset, node.end_col_offset, str(not node.value), "const")
        elif isinstance(node.value, int) and not isinstance(node.value, bool) and node.value < 4096:
            self.add(node.lineno, node.col_offset, node.end_col_offset, str(node.value + 1), "const")
            if node.value > 0:
                self.add(node.lineno, node.col_offset, node.end_col_offset, str(node.value - 1), "const")

    def visit_If(self, node):
        t = node.test
        if t.lineno == t.end_lineno:
            self.add(t.lineno, t.col_offset, t.end_col_offset,
                     "not (" + self.lines[t.lineno - 1][t.col_offset:t.end_col_offset] + ")", "negcond")
        self.generic_visit(node)

    visit_While = visit_If

    def visit_Expr(self, node):
        if isinstance(node.value, ast.Call) and node.lineno == node.end_lineno:
            self.add(node.lineno, node.col_offset, node.end_col_offset, "pass", "delcall")
        if isinstance(node.value, ast.Constant):
            return      # docstring
        self.generic_visit(node)

    def visit_Raise(self, node):
        if node.lineno == node.end_lineno:
            self.add(node.lineno, node.col_offset, node.end_col_offset, "pass", "delraise")
        self.generic_visit(node)


def crash_candidates():
    """one mutant per function: raise at entry (shows how a check treats a tool / API that fails on
    valid input)"""
    out = []
    for rel in sorted(FILE_CHECKS):
        path = os.path.join(REPO, SRC, rel)
        src = open(path).read()
        lines = src.split("\n")
        for node in ast.walk(ast.parse(src)):
            if isinstance(node, (ast.FunctionDef,)) and node.name not in ("parse_command_line",):
                body = node.body
                first = body[0]
                if isinstance(first, ast.Expr) and isinstance(first.value, ast.Constant) and len(body) > 1:
                    first = body[1]
                ln = first.lineno
                indent = len(lines[ln - 1]) - len(lines[ln - 1].lstrip())
                out.append({"file": rel, "line": ln, "col": indent, "end": indent, "old": "",
                            "new": 'raise RuntimeError("mutant")\n' + " " * indent, "op": "crash",
                            "text": "def " + node.name})
    return out


def candidates():
    if os.environ.get("MUT_MODE") == "crash":
        return crash_candidates()
    out = []
    for rel in sorted(FILE_CHECKS):
        path = os.path.join(REPO, SRC, rel)
        src = open(path).read()
        lines = src.split("\n")
        f = Finder(lines)
        f.visit(ast.parse(src))
        seen = set()
        for m in f.out:
            key = (m["line"], m["col"], m["new"])
            if key in seen:
                continue
            seen.add(key)
            m["file"] = rel
            m["text"] = lines[m["line"] - 1].strip()
            out.append(m)
    return out


def apply(wt, m):
    path = os.path.join(wt, SRC, m["file"])
    lines = open(path).read().split("\n")
    t = lines[m["line"] - 1]
    assert t[m["col"]:m["end"]] == m["old"], (t, m)
    lines[m["line"] - 1] = t[:m["col"]] + m["new"] + t[m["end"]:]
    open(path, "w").write("\n".join(lines))


def sh(cmd, **kw):
    return subprocess.run(cmd, shell=True, capture_output=True, text=True, **kw)


def run_one(m, baseline_tail):
    wt = tempfile.mkdtemp(prefix="mut_", dir="/tmp")
    os.rmdir(wt)
    r = sh("git -C /repo worktree add --detach %s HEAD" % wt)
    assert r.returncode == 0, r.stderr
    scratch = tempfile.mkdtemp(prefix="mut_tmp_", dir="/tmp")
    res = dict(m)
    try:
        apply(wt, m)
        c = sh("/venv/bin/python -m py_compile %s" % os.path.join(wt, SRC, m["file"]))
        if c.returncode != 0:
            res["outcome"] = "does_not_compile"
            return res
        env = dict(os.environ, PYTHONPATH=wt + "/src", TMPDIR=scratch)
        try:
            t = sh("cd %s && /venv/bin/python -m pytest -q -p no:cacheprovider --timeout=120 2>&1 | tail -1" % wt,
                   env=env, timeout=900)
            tail = t.stdout.strip()
        except subprocess.TimeoutExpired:
            tail = "timeout"
        res["tests"] = tail
        key = lambda s: " ".join(s.split(" in ")[0].split())
        if key(tail) != key(baseline_tail):
            res["outcome"] = "killed_by_tests"
            return res
        res["checks"] = {}
        ev = tempfile.mkdtemp(prefix="ev_mut_", dir="/tmp")
        caught = []
        for chk in FILE_CHECKS[m["file"]]:
            e2 = dict(os.environ, VERIF_REPO=wt, VERIF_EVIDENCE_DIR=ev, TMPDIR=scratch)
            e2.pop("PYTHONPATH", None)
            try:
                cr = sh("cd /verif && ./check %s --tier quick" % chk, env=e2, timeout=1800)
                rc = cr.returncode
                lines = [l[:300] for l in cr.stdout.splitlines() if l.startswith(("  clause=", "MACHINERY"))][:4]
                if rc == 2:
                    lines += [l[:300] for l in (cr.stdout + cr.stderr).splitlines()[-4:]]
            except subprocess.TimeoutExpired:
                rc, lines = 3, ["timeout"]
            res["checks"][chk] = {"rc": rc, "lines": lines}
            if rc == 1:
                caught.append(chk)
                break           # one catching check is enough
        shutil.rmtree(ev, ignore_errors=True)
        res["outcome"] = "caught" if caught else "survived"
        res["caught_by"] = caught
        return res
    finally:
        shutil.rmtree(scratch, ignore_errors=True)
        sh("git -C /repo worktree remove --force %s" % wt)
        shutil.rmtree(wt, ignore_errors=True)


def main():
    if sys.argv[1] == "list":
        for m in candidates():
            print(json.dumps(m))
        return
    if sys.argv[1] == "run":
        out = sys.argv[2]
        n = int(sys.argv[3]) if len(sys.argv) > 3 else 50
        seed = int(sys.argv[4]) if len(sys.argv) > 4 else 1
        only = sys.argv[5].split(",") if len(sys.argv) > 5 else None
        rng = random.Random(seed)
        cands = candidates()
        if only:
            cands = [c for c in cands if c["file"] in only]
        # integer-literal mutants outnumber everything else: keep a third of them
        cands = [c for c in cands if c["op"] != "const" or rng.random() < 0.33]
        byfile = {}
        for c in cands:
            byfile.setdefault(c["file"], []).append(c)
        for v in byfile.values():
            rng.shuffle(v)
        pick = []
        files = sorted(byfile)
        while len(pick) < n and any(byfile.values()):
            for f in files:
                if byfile[f] and len(pick) < n:
                    pick.append(byfile[f].pop())
        done = set()
        if os.path.exists(out):
            for l in open(out):
                d = json.loads(l)
                done.add((d["file"], d["line"], d["col"], d["new"]))
        base = sh("cd /repo && /venv/bin/python -m pytest -q -p no:cacheprovider --timeout=120 2>&1 | tail -1",
                  env=dict(os.environ, TMPDIR=tempfile.mkdtemp(prefix="mut_base_", dir="/tmp"))).stdout.strip()
        print("baseline:", base, file=sys.stderr)
        from concurrent.futures import ThreadPoolExecutor
        todo = [m for m in pick if (m["file"], m["line"], m["col"], m["new"]) not in done]

        def work(m):
            try:
                r = run_one(m, base)
            except Exception as e:  # noqa
                r = dict(m, outcome="tool_error", err=repr(e)[:300])
            with open(out, "a") as f:
                f.write(json.dumps(r) + "\n")
            print(r["file"], r["line"], r["op"], repr(r["old"]), "->", repr(r["new"]), r["outcome"],
                  r.get("caught_by", ""), file=sys.stderr)
        with ThreadPoolExecutor(int(os.environ.get("MUT_JOBS", "5"))) as ex:
            list(ex.map(work, todo))


if __name__ == "__main__":
    main()
