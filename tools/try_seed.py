#!/venv/bin/python
"""tools/try_seed.py <Cxx> <seed_out_dir> <k> [extra check ids...]
Confirm a seeded change (tests unchanged, demo fails with / passes without),
then run the quick check(s) against a scratch worktree carrying the change.
Evidence of these runs goes to a scratch dir, never to /verif/evidence."""
import json, os, shutil, subprocess, sys, tempfile

pid, sdir, k = sys.argv[1], sys.argv[2], sys.argv[3]
checks = [pid] + sys.argv[4:]
wt = tempfile.mkdtemp(prefix="try_%s_m%s_" % (pid, k), dir="/tmp")
os.rmdir(wt)
def sh(cmd, **kw):
    return subprocess.run(cmd, shell=True, capture_output=True, text=True, **kw)
r = sh("git -C /repo worktree add --detach %s HEAD" % wt)
assert r.returncode == 0, r.stderr
scratch_tmp = tempfile.mkdtemp(prefix="try_tmp_", dir="/tmp")      # demos / tests leak temporary directories
env = dict(os.environ, PYTHONPATH=wt + "/src", TMPDIR=scratch_tmp)
res = {"property": pid, "mutation": k}
try:
    demo = os.path.join(sdir, "m%s_demo.py" % k)
    diff = os.path.join(sdir, "m%s.diff" % k)
    shutil.copy(demo, wt + "/" + os.path.basename(demo))      # some demos import themselves by name
    fast = os.environ.get("TRY_FAST") == "1"      # re-trial after strengthening: demo/tests already confirmed
    if not fast:
        d0 = sh("cd %s && /venv/bin/python %s" % (wt, os.path.basename(demo)), env=env, timeout=600)
        res["demo_without"] = d0.returncode
    a = sh("git -C %s apply %s" % (wt, diff))
    assert a.returncode == 0, a.stderr
    if not fast:
        d1 = sh("cd %s && /venv/bin/python %s" % (wt, os.path.basename(demo)), env=env, timeout=600)
        res["demo_with"] = d1.returncode
        res["demo_with_tail"] = (d1.stdout + d1.stderr)[-300:]
        t = sh("cd %s && /venv/bin/python -m pytest -q -p no:cacheprovider --timeout=900 2>&1 | tail -1" % wt, env=env)
        res["tests"] = t.stdout.strip()
    ev = tempfile.mkdtemp(prefix="ev_")
    for c in checks:
        e2 = dict(os.environ, VERIF_REPO=wt, VERIF_EVIDENCE_DIR=ev)
        e2.pop("PYTHONPATH", None)
        cr = sh("cd /verif && ./check %s --tier quick" % c, env=e2, timeout=3600)
        lines = [l for l in cr.stdout.splitlines() if l.startswith(("VIOLATION", "  clause=", "PASS", "FAIL", "MACHINERY", "KNOWN"))]
        res["check_" + c] = {"rc": cr.returncode, "lines": [l[:400] for l in lines][:12]}
    shutil.rmtree(ev, ignore_errors=True)
finally:
    shutil.rmtree(scratch_tmp, ignore_errors=True)
    sh("git -C /repo worktree remove --force %s" % wt)
    shutil.rmtree(wt, ignore_errors=True)
print(json.dumps(res, indent=1))
