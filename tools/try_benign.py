#!/venv/bin/python
"""tools/try_benign.py <diff> <check ids...>: apply a property-preserving patch to a scratch
worktree and require every listed quick check to exit 0."""
import json, os, shutil, subprocess, sys, tempfile
diff = sys.argv[1]; checks = sys.argv[2:]
wt = tempfile.mkdtemp(prefix="ben_", dir="/tmp"); os.rmdir(wt)
def sh(cmd, **kw): return subprocess.run(cmd, shell=True, capture_output=True, text=True, **kw)
assert sh("git -C /repo worktree add --detach %s HEAD" % wt).returncode == 0
res = {"diff": diff}
try:
    a = sh("git -C %s apply %s" % (wt, diff))
    if a.returncode != 0:
        res["apply"] = a.stderr[-300:]
    else:
        t = sh("cd %s && PYTHONPATH=%s/src /venv/bin/python -m pytest -q -p no:cacheprovider --timeout=900 2>&1 | tail -1" % (wt, wt))
        res["tests"] = t.stdout.strip()
        ev = tempfile.mkdtemp(prefix="ev_")
        for c in checks:
            e2 = dict(os.environ, VERIF_REPO=wt, VERIF_EVIDENCE_DIR=ev); e2.pop("PYTHONPATH", None)
            cr = sh("cd /verif && ./check %s --tier quick" % c, env=e2, timeout=3600)
            lines = [l[:300] for l in cr.stdout.splitlines() if l.startswith(("VIOLATION", "  clause=", "FAIL", "MACHINERY", "DRIFT"))]
            res[c] = {"rc": cr.returncode, "lines": lines[:6]}
        shutil.rmtree(ev, ignore_errors=True)
finally:
    sh("git -C /repo worktree remove --force %s" % wt); shutil.rmtree(wt, ignore_errors=True)
print(json.dumps(res, indent=1))
