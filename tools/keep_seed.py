#!/venv/bin/python
"""tools/keep_seed.py <trial.json> <seed_out_dir>: store a confirmed seeded change under /verif/seeded/."""
import json, os, shutil, sys
trial = json.load(open(sys.argv[1])); sdir = sys.argv[2]
pid, k = trial["property"], trial["mutation"]
ok_tests = "340 passed" in trial.get("tests", "")
ok_demo = trial.get("demo_without") == 0 and trial.get("demo_with") not in (0, None)
if not (ok_tests and ok_demo):
    print("NOT CONFIRMED", pid, k, trial.get("tests"), trial.get("demo_without"), trial.get("demo_with")); sys.exit(1)
dst = "/verif/seeded/%s_%sm%s" % (pid, os.environ.get("SEED_ROUND", ""), k)
os.makedirs(dst, exist_ok=True)
shutil.copy(os.path.join(sdir, "m%s.diff" % k), dst + "/patch.diff")
shutil.copy(os.path.join(sdir, "m%s_demo.py" % k), dst + "/demo.py")
if ("m%s_demo" % k) in open(os.path.join(sdir, "m%s_demo.py" % k)).read():
    # the demonstration imports itself by name (reader sub-process): keep that name too
    shutil.copy(os.path.join(sdir, "m%s_demo.py" % k), dst + "/m%s_demo.py" % k)
meta = json.load(open(os.path.join(sdir, "m%s_meta.json" % k)))
checks = {c[6:]: {"exit": v["rc"], "clauses": [l.strip()[:200] for l in v["lines"] if l.startswith("  clause=")][:4]}
          for c, v in trial.items() if c.startswith("check_")}
out = {"breaks_property": pid, "title": meta.get("title"), "needs_to_manifest": meta.get("needs_to_manifest"),
       "description": meta.get("description"),
       "confirmed_by_lead": {"how": "tools/try_seed.py: fresh scratch worktree of /repo HEAD, demo before/after applying patch.diff, "
                                    "full test-suite with PYTHONPATH=<worktree>/src, then ./check <id> --tier quick with VERIF_REPO=<worktree>",
                             "tests_with_change": trial.get("tests"), "demo_exit_without_change": trial.get("demo_without"),
                             "demo_exit_with_change": trial.get("demo_with")},
       "checks_run": checks,
       "detected": any(v["exit"] == 1 for v in checks.values())}
json.dump(out, open(dst + "/meta.json", "w"), indent=1)
print("kept", dst, "detected" if out["detected"] else "MISSED")
