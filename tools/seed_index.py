#!/venv/bin/python
"""Regenerate /verif/seeded/INDEX.md from the meta.json files."""
import glob, json, os
rows = []
for d in sorted(glob.glob("/verif/seeded/*/meta.json")):
    m = json.load(open(d))
    name = os.path.basename(os.path.dirname(d))
    caught = []
    for c, v in m["checks_run"].items():
        if v["exit"] == 1:
            cl = sorted({x.split("clause=")[1].split(" ")[0] for x in v["clauses"] if "clause=" in x})
            caught.append("%s (%s)" % (c, ", ".join(cl)))
    rows.append("| %s | %s | %s | %s |" % (name, (m.get("title") or "").replace("|", "/")[:110],
                                           (m.get("needs_to_manifest") or "").replace("|", "/").replace("\n", " ")[:160],
                                           "; ".join(caught) or "**MISSED**"))
with open("/verif/seeded/INDEX.md", "w") as f:
    f.write("# Seeded changes (each confirmed: 340 tests still pass, demo fails with / passes without)\n\n"
            "Produced by independent sub-agents that saw only the property text. `patch.diff`, `demo.py`, `meta.json` "
            "per directory. Detection = quick tier of the named check run with VERIF_REPO on a scratch worktree carrying the patch.\n\n"
            "| id | change | needs to manifest | caught by (clauses) |\n|---|---|---|---|\n" + "\n".join(rows) + "\n")
    extra = sorted(glob.glob("/verif/seeded/judged_not_violating/*/meta.json"))
    if extra:
        f.write("\n## Proposed changes the lead judged NOT to break the property as stated (kept apart, reasoning in meta.json)\n\n")
        for d in extra:
            m = json.load(open(d))
            f.write("* `%s` - %s: %s\n" % (os.path.relpath(os.path.dirname(d), "/verif/seeded"), (m.get("title") or "")[:140],
                                          m["lead_judgement"][:400]))
print(len(rows), "seeds indexed;", sum("MISSED" in r for r in rows), "missed")
